// mirfacts — fact extractor for the selium static checks (engine E1 in DESIGN.md).
//
// A rustc driver (rustc_private) injected through RUSTC_WORKSPACE_WRAPPER. For every
// workspace crate it dumps, as ONE json file per compiler process, the pre-coroutine-
// transform MIR (`mir_promoted`) of every fn / method / closure body with resolved
// callees, plus ADTs, trait impls and evaluated constants. It judges nothing.
#![feature(rustc_private)]

extern crate rustc_abi;
extern crate rustc_driver;
extern crate rustc_hir;
extern crate rustc_interface;
extern crate rustc_middle;
extern crate rustc_span;

use std::fmt::Write as _;

use rustc_driver::{Callbacks, Compilation};
use rustc_hir::def::DefKind;
use rustc_hir::def_id::{DefId, LocalDefId, LOCAL_CRATE};
use rustc_interface::interface::Compiler;
use rustc_middle::mir::{
    self, AggregateKind, BasicBlock, Body, BorrowKind, Const, ConstValue, Operand, Place,
    ProjectionElem, Rvalue, StatementKind, TerminatorKind, UnwindAction,
};
use rustc_middle::ty::print::{with_crate_prefix, with_no_trimmed_paths, with_no_visible_paths};
use rustc_middle::ty::{self, Instance, Ty, TyCtxt, TypingEnv};
use rustc_span::Span;

// ---------------------------------------------------------------------------------------
// tiny JSON writer
// ---------------------------------------------------------------------------------------

fn esc(s: &str, out: &mut String) {
    out.push('"');
    for c in s.chars() {
        match c {
            '"' => out.push_str("\\\""),
            '\\' => out.push_str("\\\\"),
            '\n' => out.push_str("\\n"),
            '\r' => out.push_str("\\r"),
            '\t' => out.push_str("\\t"),
            c if (c as u32) < 0x20 => {
                let _ = write!(out, "\\u{:04x}", c as u32);
            }
            c => out.push(c),
        }
    }
    out.push('"');
}

fn js(s: &str) -> String {
    let mut o = String::new();
    esc(s, &mut o);
    o
}

struct Obj(String, bool);
impl Obj {
    fn new() -> Self {
        Obj(String::from("{"), true)
    }
    fn raw(&mut self, k: &str, v: &str) -> &mut Self {
        if !self.1 {
            self.0.push(',');
        }
        self.1 = false;
        esc(k, &mut self.0);
        self.0.push(':');
        self.0.push_str(v);
        self
    }
    fn s(&mut self, k: &str, v: &str) -> &mut Self {
        let v = js(v);
        self.raw(k, &v)
    }
    fn n(&mut self, k: &str, v: i128) -> &mut Self {
        self.raw(k, &v.to_string())
    }
    fn b(&mut self, k: &str, v: bool) -> &mut Self {
        self.raw(k, if v { "true" } else { "false" })
    }
    fn end(&mut self) -> String {
        let mut s = std::mem::take(&mut self.0);
        s.push('}');
        s
    }
}

fn arr(items: impl IntoIterator<Item = String>) -> String {
    let mut s = String::from("[");
    let mut first = true;
    for i in items {
        if !first {
            s.push(',');
        }
        first = false;
        s.push_str(&i);
    }
    s.push(']');
    s
}

// ---------------------------------------------------------------------------------------
// printing helpers
// ---------------------------------------------------------------------------------------

fn np<T>(f: impl FnOnce() -> T) -> T {
    with_crate_prefix!(with_no_visible_paths!(with_no_trimmed_paths!(f())))
}

struct Cx<'tcx> {
    tcx: TyCtxt<'tcx>,
    krate: String,
    // promoted constants of the body being printed that are `&Enum::UnitVariant`: index -> (adt path, variant name, variant index)
    promoted_units: std::cell::RefCell<std::collections::HashMap<usize, (String, String, usize)>>,
}

impl<'tcx> Cx<'tcx> {
    fn fix(&self, s: String) -> String {
        // `crate::` (from with_crate_prefix) -> the crate's own name, so paths are global
        let pat = "crate::";
        if !s.contains(pat) {
            return s;
        }
        let mut out = String::with_capacity(s.len() + 16);
        let bytes = s.as_bytes();
        let mut i = 0;
        while i < s.len() {
            if s[i..].starts_with(pat)
                && (i == 0 || !(bytes[i - 1].is_ascii_alphanumeric() || bytes[i - 1] == b'_'))
            {
                out.push_str(&self.krate);
                out.push_str("::");
                i += pat.len();
            } else {
                let ch = s[i..].chars().next().unwrap();
                out.push(ch);
                i += ch.len_utf8();
            }
        }
        out
    }

    fn path(&self, did: DefId) -> String {
        self.fix(np(|| self.tcx.def_path_str(did)))
    }

    fn path_args(&self, did: DefId, args: ty::GenericArgsRef<'tcx>) -> String {
        self.fix(np(|| self.tcx.def_path_str_with_args(did, args)))
    }

    fn ty(&self, t: Ty<'tcx>) -> String {
        self.fix(np(|| t.to_string()))
    }

    fn span(&self, sp: Span) -> String {
        let sm = self.tcx.sess.source_map();
        // attribute to the outermost user-written call site
        let sp = sp.source_callsite();
        let lo = sm.lookup_char_pos(sp.lo());
        let name = match &lo.file.name {
            rustc_span::FileName::Real(r) => match r.local_path() {
                Some(p) => p.to_string_lossy().into_owned(),
                None => format!("{:?}", r),
            },
            other => format!("{:?}", other),
        };
        format!("{}:{}:{}", name, lo.line, lo.col.0 + 1)
    }

    fn macros(&self, sp: Span) -> String {
        let mut v = vec![];
        for e in sp.macro_backtrace() {
            if let rustc_span::ExpnKind::Macro(_, name) = e.kind {
                v.push(js(name.as_str()));
            } else if let rustc_span::ExpnKind::Desugaring(d) = e.kind {
                v.push(js(&format!("desugar:{:?}", d)));
            }
        }
        arr(v)
    }

    fn adt_path_of(&self, t: Ty<'tcx>) -> Option<String> {
        let mut t = t;
        loop {
            match t.kind() {
                ty::Ref(_, inner, _) => t = *inner,
                ty::RawPtr(inner, _) => t = *inner,
                ty::Adt(def, _) => return Some(self.path(def.did())),
                _ => return None,
            }
        }
    }

    fn place(&self, p: &Place<'tcx>) -> String {
        let mut o = Obj::new();
        o.n("l", p.local.as_usize() as i128);
        let mut pr = vec![];
        for e in p.projection.iter() {
            pr.push(match e {
                ProjectionElem::Deref => js("*"),
                ProjectionElem::Field(f, _) => format!("{}", f.as_usize()),
                ProjectionElem::Downcast(name, idx) => {
                    let mut d = Obj::new();
                    d.n("v", idx.as_usize() as i128);
                    if let Some(n) = name {
                        d.s("vn", n.as_str());
                    }
                    d.end()
                }
                ProjectionElem::Index(l) => {
                    let mut d = Obj::new();
                    d.n("idx", l.as_usize() as i128);
                    d.end()
                }
                ProjectionElem::ConstantIndex { offset, from_end, .. } => {
                    let mut d = Obj::new();
                    d.n("cidx", offset as i128).b("from_end", from_end);
                    d.end()
                }
                ProjectionElem::Subslice { from, to, from_end } => {
                    let mut d = Obj::new();
                    d.n("sub_from", from as i128).n("sub_to", to as i128).b("from_end", from_end);
                    d.end()
                }
                ProjectionElem::OpaqueCast(_) => js("opaque"),
                ProjectionElem::UnwrapUnsafeBinder(_) => js("unbinder"),
            });
        }
        o.raw("p", &arr(pr));
        o.end()
    }

    fn konst(&self, c: &Const<'tcx>, env: TypingEnv<'tcx>) -> String {
        let mut o = Obj::new();
        o.s("k", "const");
        let t = c.ty();
        o.s("ty", &self.ty(t));
        // function items / closures as values
        match t.kind() {
            ty::FnDef(did, args) => {
                o.s("fn", &self.path(*did));
                o.s("fn_full", &self.path_args(*did, args));
                return o.end();
            }
            ty::Closure(did, _) | ty::Coroutine(did, _) | ty::CoroutineClosure(did, _) => {
                o.s("closure", &self.path(*did));
                return o.end();
            }
            _ => {}
        }
        if let Const::Val(ConstValue::Scalar(mir::interpret::Scalar::Ptr(ptr, _)), _) = c {
            if let Some(mir::interpret::GlobalAlloc::Static(sd)) =
                self.tcx.try_get_global_alloc(ptr.provenance.alloc_id())
            {
                o.s("static", &self.path(sd));
            }
        }
        if let Const::Unevaluated(u, _) = c {
            if u.promoted.is_none() {
                o.s("item", &self.path(u.def));
            } else {
                o.b("promoted", true);
                if let Some(pi) = u.promoted {
                    if let Some((adt, vn, vi)) = self.promoted_units.borrow().get(&pi.as_usize()) {
                        o.s("promoted_adt", adt).s("promoted_variant", vn).n("promoted_vidx", *vi as i128);
                    }
                }
            }
        }
        let is_strlike = match t.kind() {
            ty::Ref(_, inner, _) => {
                matches!(inner.kind(), ty::Str)
                    || matches!(inner.kind(), ty::Slice(e) if matches!(e.kind(), ty::Uint(ty::UintTy::U8)))
            }
            _ => false,
        };
        let is_scalar = t.is_integral() || t.is_bool() || t.is_char();
        let is_float = t.is_floating_point();
        if is_strlike || is_scalar || is_float {
            let val = match c {
                Const::Val(v, _) => Some(*v),
                Const::Unevaluated(u, _) if u.promoted.is_none() && !c.has_non_region_param_generic() => {
                    c.eval(self.tcx, env, rustc_span::DUMMY_SP).ok()
                }
                Const::Ty(_, tc) => match tc.kind() {
                    ty::ConstKind::Value(cv) => Some(self.tcx.valtree_to_const_val(cv)),
                    _ => None,
                },
                _ => None,
            };
            if let Some(v) = val {
                if is_strlike {
                    if let ConstValue::Slice { .. } | ConstValue::Indirect { .. } = v {
                        if let Some(b) = v.try_get_slice_bytes_for_diagnostics(self.tcx) {
                            match std::str::from_utf8(b) {
                                Ok(s) => {
                                    o.s("str", s);
                                }
                                Err(_) => {
                                    o.raw("bytes", &arr(b.iter().map(|x| x.to_string())));
                                }
                            }
                        }
                    }
                } else if let Some(si) = v.try_to_scalar_int() {
                    let size = si.size();
                    let bits = si.to_bits(size);
                    if t.is_bool() {
                        o.b("bool", bits != 0);
                    } else if is_float {
                        o.s("float_bits", &bits.to_string());
                        if size.bytes() == 8 {
                            o.s("float", &format!("{:?}", f64::from_bits(bits as u64)));
                        } else if size.bytes() == 4 {
                            o.s("float", &format!("{:?}", f32::from_bits(bits as u32)));
                        }
                    } else if t.is_signed() {
                        let v = size.sign_extend(bits);
                        o.raw("int", &v.to_string());
                    } else {
                        o.raw("int", &bits.to_string());
                    }
                }
            }
        }
        o.end()
    }

    fn operand(&self, op: &Operand<'tcx>, env: TypingEnv<'tcx>) -> String {
        match op {
            Operand::Copy(p) => {
                let mut o = Obj::new();
                o.s("k", "copy").raw("pl", &self.place(p));
                o.end()
            }
            Operand::Move(p) => {
                let mut o = Obj::new();
                o.s("k", "move").raw("pl", &self.place(p));
                o.end()
            }
            Operand::Constant(c) => self.konst(&c.const_, env),
            _ => {
                let mut o = Obj::new();
                o.s("k", "runtime_checks");
                o.end()
            }
        }
    }

    fn variants_of(&self, t: Ty<'tcx>) -> Option<String> {
        if let ty::Adt(def, _) = t.kind() {
            if def.is_enum() {
                let mut v = vec![];
                for (idx, d) in def.discriminants(self.tcx) {
                    let mut o = Obj::new();
                    o.s("name", def.variant(idx).name.as_str());
                    o.n("idx", idx.as_usize() as i128);
                    o.raw("discr", &d.val.to_string());
                    v.push(o.end());
                }
                return Some(arr(v));
            }
        }
        None
    }

    fn rvalue(&self, rv: &Rvalue<'tcx>, body: &Body<'tcx>, env: TypingEnv<'tcx>) -> String {
        let mut o = Obj::new();
        match rv {
            Rvalue::Use(op, ..) => {
                o.s("k", "use").raw("op", &self.operand(op, env));
            }
            Rvalue::Repeat(op, _) => {
                o.s("k", "repeat").raw("op", &self.operand(op, env));
            }
            Rvalue::Ref(_, bk, p) => {
                o.s("k", "ref");
                o.b("mut", matches!(bk, BorrowKind::Mut { .. }));
                o.raw("pl", &self.place(p));
            }
            Rvalue::RawPtr(_, p) => {
                o.s("k", "rawptr").raw("pl", &self.place(p));
            }
            Rvalue::ThreadLocalRef(d) => {
                o.s("k", "tls").s("item", &self.path(*d));
            }
            Rvalue::Cast(kind, op, t) => {
                o.s("k", "cast");
                o.s("cast", &format!("{:?}", kind));
                o.raw("op", &self.operand(op, env));
                o.s("ty", &self.ty(*t));
                o.s("from_ty", &self.ty(op.ty(&body.local_decls, self.tcx)));
            }
            Rvalue::BinaryOp(bop, ops) => {
                o.s("k", "binop");
                o.s("op", &format!("{:?}", bop));
                o.raw("a", &self.operand(&ops.0, env));
                o.raw("b", &self.operand(&ops.1, env));
                o.s("a_ty", &self.ty(ops.0.ty(&body.local_decls, self.tcx)));
            }
            Rvalue::UnaryOp(uop, op) => {
                o.s("k", "unop");
                o.s("op", &format!("{:?}", uop));
                o.raw("a", &self.operand(op, env));
                o.s("a_ty", &self.ty(op.ty(&body.local_decls, self.tcx)));
            }
            Rvalue::Discriminant(p) => {
                o.s("k", "discr").raw("pl", &self.place(p));
                let t = p.ty(&body.local_decls, self.tcx).ty;
                o.s("ty", &self.ty(t));
                if let Some(a) = self.adt_path_of(t) {
                    o.s("adt", &a);
                }
                if let Some(v) = self.variants_of(t) {
                    o.raw("variants", &v);
                }
            }
            Rvalue::Aggregate(kind, ops) => {
                o.s("k", "agg");
                match &**kind {
                    AggregateKind::Array(_) => {
                        o.s("agg", "array");
                    }
                    AggregateKind::Tuple => {
                        o.s("agg", "tuple");
                    }
                    AggregateKind::Adt(did, vidx, _, _, active) => {
                        o.s("agg", "adt");
                        o.s("adt", &self.path(*did));
                        let def = self.tcx.adt_def(*did);
                        o.n("vidx", vidx.as_usize() as i128);
                        o.s("variant", def.variant(*vidx).name.as_str());
                        let fields: Vec<String> =
                            def.variant(*vidx).fields.iter().map(|f| js(f.name.as_str())).collect();
                        o.raw("fields", &arr(fields));
                        if let Some(a) = active {
                            o.n("union_field", a.as_usize() as i128);
                        }
                    }
                    AggregateKind::Closure(did, _) => {
                        o.s("agg", "closure").s("closure", &self.path(*did));
                    }
                    AggregateKind::Coroutine(did, _) => {
                        o.s("agg", "coroutine").s("closure", &self.path(*did));
                    }
                    AggregateKind::CoroutineClosure(did, _) => {
                        o.s("agg", "coroutine_closure").s("closure", &self.path(*did));
                    }
                    AggregateKind::RawPtr(..) => {
                        o.s("agg", "rawptr");
                    }
                }
                o.raw("ops", &arr(ops.iter().map(|x| self.operand(x, env))));
            }
            Rvalue::CopyForDeref(p) => {
                o.s("k", "use");
                let mut c = Obj::new();
                c.s("k", "copy").raw("pl", &self.place(p));
                o.raw("op", &c.end());
            }
            Rvalue::WrapUnsafeBinder(op, _) => {
                o.s("k", "use").raw("op", &self.operand(op, env));
            }
        }
        o.end()
    }

    fn unwind(&self, u: &UnwindAction) -> String {
        match u {
            UnwindAction::Cleanup(bb) => bb.as_usize().to_string(),
            _ => "null".to_string(),
        }
    }

    fn call(
        &self,
        o: &mut Obj,
        owner: LocalDefId,
        func: &Operand<'tcx>,
        args: &[rustc_span::Spanned<Operand<'tcx>>],
        body: &Body<'tcx>,
        env: TypingEnv<'tcx>,
    ) {
        let fty = func.ty(&body.local_decls, self.tcx);
        match fty.kind() {
            ty::FnDef(did, gargs) => {
                o.s("callee", &self.path(*did));
                o.s("callee_full", &self.path_args(*did, gargs));
                o.b("callee_local", did.is_local());
                o.raw("gargs", &arr(gargs.iter().map(|a| js(&self.fix(np(|| a.to_string()))))));
                if let Some(tr) = self.tcx.trait_of_assoc(*did) {
                    o.s("trait", &self.path(tr));
                    if gargs.len() > 0 {
                        if let Some(t0) = gargs.get(0).and_then(|a| a.as_type()) {
                            o.s("self_ty", &self.ty(t0));
                        }
                    }
                } else if let Some(imp) = self.tcx.inherent_impl_of_assoc(*did) {
                    let st = self.tcx.type_of(imp).instantiate_identity().skip_norm_wip();
                    o.s("impl_self", &self.ty(st));
                }
                let _ = owner;
                // resolution to the concrete impl where the caller's environment allows
                let kind = self.tcx.def_kind(*did);
                if matches!(kind, DefKind::Fn | DefKind::AssocFn) {
                    let res = std::panic::catch_unwind(std::panic::AssertUnwindSafe(|| {
                        Instance::try_resolve(self.tcx, env, *did, gargs)
                    }));
                    if let Ok(Ok(Some(inst))) = res {
                        let rdid = inst.def_id();
                        o.s("resolved", &self.path(rdid));
                        o.b("resolved_local", rdid.is_local());
                        let ik = match inst.def {
                            ty::InstanceKind::Item(_) => "item",
                            ty::InstanceKind::Virtual(..) => "virtual",
                            ty::InstanceKind::Intrinsic(_) => "intrinsic",
                            ty::InstanceKind::FnPtrShim(..) => "fnptrshim",
                            ty::InstanceKind::ClosureOnceShim { .. } => "closure_once",
                            ty::InstanceKind::CloneShim(..) => "clone_shim",
                            ty::InstanceKind::DropGlue(..) => "drop_glue",
                            _ => "other",
                        };
                        o.s("inst", ik);
                    }
                }
            }
            ty::FnPtr(..) => {
                o.s("callee", "<fnptr>");
                o.raw("func", &self.operand(func, env));
            }
            _ => {
                o.s("callee", "<indirect>");
                o.s("func_ty", &self.ty(fty));
                o.raw("func", &self.operand(func, env));
            }
        }
        o.raw("args", &arr(args.iter().map(|a| self.operand(&a.node, env))));
        o.raw(
            "arg_tys",
            &arr(args.iter().map(|a| js(&self.ty(a.node.ty(&body.local_decls, self.tcx))))),
        );
    }

    fn terminator(
        &self,
        owner: LocalDefId,
        term: &mir::Terminator<'tcx>,
        body: &Body<'tcx>,
        env: TypingEnv<'tcx>,
    ) -> String {
        let mut o = Obj::new();
        let sp = term.source_info.span;
        match &term.kind {
            TerminatorKind::Goto { target } => {
                o.s("k", "goto").n("target", target.as_usize() as i128);
            }
            TerminatorKind::SwitchInt { discr, targets } => {
                o.s("k", "switch");
                o.raw("discr", &self.operand(discr, env));
                o.s("discr_ty", &self.ty(discr.ty(&body.local_decls, self.tcx)));
                let mut v = vec![];
                for (val, bb) in targets.iter() {
                    v.push(format!("[{},{}]", val, bb.as_usize()));
                }
                o.raw("targets", &arr(v));
                o.n("otherwise", targets.otherwise().as_usize() as i128);
            }
            TerminatorKind::UnwindResume => {
                o.s("k", "resume");
            }
            TerminatorKind::UnwindTerminate(_) => {
                o.s("k", "abort");
            }
            TerminatorKind::Return => {
                o.s("k", "return");
            }
            TerminatorKind::Unreachable => {
                o.s("k", "unreachable");
            }
            TerminatorKind::Drop { place, target, unwind, replace, .. } => {
                o.s("k", "drop");
                o.raw("pl", &self.place(place));
                o.s("ty", &self.ty(place.ty(&body.local_decls, self.tcx).ty));
                o.n("target", target.as_usize() as i128);
                o.raw("unwind", &self.unwind(unwind));
                o.b("replace", *replace);
            }
            TerminatorKind::Call { func, args, destination, target, unwind, fn_span, .. } => {
                o.s("k", "call");
                self.call(&mut o, owner, func, args, body, env);
                o.raw("dest", &self.place(destination));
                o.s("dest_ty", &self.ty(destination.ty(&body.local_decls, self.tcx).ty));
                match target {
                    Some(t) => o.n("target", t.as_usize() as i128),
                    None => o.raw("target", "null"),
                };
                o.raw("unwind", &self.unwind(unwind));
                o.s("fn_span", &self.span(*fn_span));
            }
            TerminatorKind::TailCall { func, args, .. } => {
                o.s("k", "tailcall");
                self.call(&mut o, owner, func, args, body, env);
            }
            TerminatorKind::Assert { cond, expected, msg, target, unwind } => {
                o.s("k", "assert");
                o.raw("cond", &self.operand(cond, env));
                o.b("expected", *expected);
                let (kind, detail) = match &**msg {
                    mir::AssertKind::BoundsCheck { .. } => ("bounds", String::new()),
                    mir::AssertKind::Overflow(op, a, b) => (
                        "overflow",
                        format!(
                            "{{\"op\":{},\"a\":{},\"b\":{}}}",
                            js(&format!("{:?}", op)),
                            self.operand(a, env),
                            self.operand(b, env)
                        ),
                    ),
                    mir::AssertKind::OverflowNeg(_) => ("overflow_neg", String::new()),
                    mir::AssertKind::DivisionByZero(_) => ("div_zero", String::new()),
                    mir::AssertKind::RemainderByZero(_) => ("rem_zero", String::new()),
                    mir::AssertKind::ResumedAfterReturn(_) => ("resumed_after_return", String::new()),
                    mir::AssertKind::ResumedAfterPanic(_) => ("resumed_after_panic", String::new()),
                    mir::AssertKind::ResumedAfterDrop(_) => ("resumed_after_drop", String::new()),
                    _ => ("other", String::new()),
                };
                o.s("assert", kind);
                if !detail.is_empty() {
                    o.raw("detail", &detail);
                }
                o.n("target", target.as_usize() as i128);
                o.raw("unwind", &self.unwind(unwind));
            }
            TerminatorKind::Yield { value, resume, resume_arg, drop } => {
                o.s("k", "yield");
                o.raw("value", &self.operand(value, env));
                o.n("target", resume.as_usize() as i128);
                o.raw("resume_arg", &self.place(resume_arg));
                match drop {
                    Some(d) => o.n("drop", d.as_usize() as i128),
                    None => o.raw("drop", "null"),
                };
            }
            TerminatorKind::CoroutineDrop => {
                o.s("k", "coroutine_drop");
            }
            TerminatorKind::FalseEdge { real_target, .. } => {
                o.s("k", "goto").n("target", real_target.as_usize() as i128).b("false_edge", true);
            }
            TerminatorKind::FalseUnwind { real_target, .. } => {
                o.s("k", "goto").n("target", real_target.as_usize() as i128).b("false_unwind", true);
            }
            TerminatorKind::InlineAsm { .. } => {
                o.s("k", "asm");
            }
        }
        o.s("span", &self.span(sp));
        if sp.from_expansion() {
            o.raw("macros", &self.macros(sp));
        }
        o.end()
    }

    fn body(&self, def: LocalDefId) -> Option<String> {
        let tcx = self.tcx;
        let did = def.to_def_id();
        let kind = tcx.def_kind(did);
        let steal = &tcx.mir_promoted(def).0;
        let body = steal.borrow();
        let body: &Body<'tcx> = &body;
        {
            // `&Enum::UnitVariant` promoted to a constant (the right-hand side of `x == Enum::UnitVariant`)
            let mut pu = self.promoted_units.borrow_mut();
            pu.clear();
            let promoted = tcx.mir_promoted(def).1.borrow();
            for (pi, pb) in promoted.iter_enumerated() {
                let mut units = vec![];
                let mut other = 0;
                for bb in pb.basic_blocks.iter() {
                    for st in bb.statements.iter() {
                        if let StatementKind::Assign(bx) = &st.kind {
                            match &bx.1 {
                                Rvalue::Aggregate(ak, ops) => {
                                    if let AggregateKind::Adt(did, vidx, _, _, _) = **ak {
                                        let adt = tcx.adt_def(did);
                                        if adt.is_enum() && ops.is_empty() {
                                            units.push((self.path(did), adt.variant(vidx).name.as_str().to_string(), vidx.as_usize()));
                                            continue;
                                        }
                                    }
                                    other += 1;
                                }
                                Rvalue::Ref(..) => {}
                                _ => other += 1,
                            }
                        }
                    }
                }
                if units.len() == 1 && other == 0 {
                    pu.insert(pi.as_usize(), units.pop().unwrap());
                }
            }
        }
        let env = TypingEnv::post_analysis(tcx, tcx.typeck_root_def_id(did));

        let mut o = Obj::new();
        o.s("path", &self.path(did));
        o.s("dpath", &format!("{}{}", self.krate, tcx.def_path(did).to_string_no_crate_verbose()));
        o.s("kind", &format!("{:?}", kind));
        o.b("coroutine", body.coroutine.is_some());
        if let Some(ck) = tcx.coroutine_kind(did) {
            o.s("coroutine_kind", &format!("{:?}", ck));
        }
        o.s("span", &self.span(tcx.def_span(did)));
        o.n("args", body.arg_count as i128);
        let parent = tcx.parent(did);
        o.s("parent", &self.path(parent));
        if matches!(kind, DefKind::AssocFn) {
            if let Some(imp) = tcx.impl_of_assoc(did) {
                let st = tcx.type_of(imp).instantiate_identity().skip_norm_wip();
                o.s("impl_self", &self.ty(st));
                if let Some(tr) = tcx.impl_opt_trait_ref(imp) {
                    let tr = tr.instantiate_identity().skip_norm_wip();
                    o.s("impl_trait", &self.path(tr.def_id));
                    o.s("impl_trait_full", &self.fix(np(|| tr.to_string())));
                }
            }
            o.s("name", tcx.item_name(did).as_str());
        } else if matches!(kind, DefKind::Fn) {
            o.s("name", tcx.item_name(did).as_str());
        }
        // visibility for fns
        if matches!(kind, DefKind::Fn | DefKind::AssocFn) {
            o.b("pub", tcx.visibility(did).is_public());
        }

        // locals
        let mut debug: Vec<Vec<String>> = vec![vec![]; body.local_decls.len()];
        let mut vdi = vec![];
        for v in body.var_debug_info.iter() {
            let mut d = Obj::new();
            d.s("name", v.name.as_str());
            match &v.value {
                mir::VarDebugInfoContents::Place(p) => {
                    d.raw("pl", &self.place(p));
                    if p.projection.is_empty() {
                        debug[p.local.as_usize()].push(v.name.as_str().to_string());
                    }
                }
                mir::VarDebugInfoContents::Const(c) => {
                    d.raw("const", &self.konst(&c.const_, env));
                }
            }
            vdi.push(d.end());
        }
        let mut locals = vec![];
        for (l, decl) in body.local_decls.iter_enumerated() {
            let mut lo = Obj::new();
            lo.n("id", l.as_usize() as i128);
            lo.s("ty", &self.ty(decl.ty));
            if let Some(a) = self.adt_path_of(decl.ty) {
                lo.s("adt", &a);
            }
            if !debug[l.as_usize()].is_empty() {
                lo.raw("debug", &arr(debug[l.as_usize()].iter().map(|s| js(s))));
            }
            lo.b("user", decl.is_user_variable());
            lo.b("mut", decl.mutability.is_mut());
            locals.push(lo.end());
        }
        o.raw("locals", &arr(locals));
        o.raw("var_debug", &arr(vdi));

        // blocks
        let mut blocks = vec![];
        for (bb, data) in body.basic_blocks.iter_enumerated() {
            let mut bo = Obj::new();
            bo.n("id", bb.as_usize() as i128);
            bo.b("cleanup", data.is_cleanup);
            let mut stmts = vec![];
            for st in data.statements.iter() {
                let mut so = Obj::new();
                match &st.kind {
                    StatementKind::Assign(b) => {
                        let (p, rv) = &**b;
                        so.s("k", "assign");
                        so.raw("pl", &self.place(p));
                        so.raw("rv", &self.rvalue(rv, body, env));
                    }
                    StatementKind::SetDiscriminant { place, variant_index } => {
                        so.s("k", "setdiscr");
                        so.raw("pl", &self.place(place));
                        so.n("vidx", variant_index.as_usize() as i128);
                    }
                    StatementKind::StorageLive(l) => {
                        so.s("k", "live").n("l", l.as_usize() as i128);
                    }
                    StatementKind::StorageDead(l) => {
                        so.s("k", "dead").n("l", l.as_usize() as i128);
                    }
                    StatementKind::FakeRead(b) => {
                        so.s("k", "fakeread").raw("pl", &self.place(&b.1));
                    }
                    StatementKind::PlaceMention(p) => {
                        so.s("k", "mention").raw("pl", &self.place(p));
                    }
                    _ => continue,
                }
                so.s("span", &self.span(st.source_info.span));
                if st.source_info.span.from_expansion() {
                    so.raw("macros", &self.macros(st.source_info.span));
                }
                stmts.push(so.end());
            }
            bo.raw("stmts", &arr(stmts));
            bo.raw("term", &self.terminator(def, data.terminator(), body, env));
            blocks.push(bo.end());
        }
        o.raw("blocks", &arr(blocks));
        let _ = BasicBlock::from_usize(0);
        Some(o.end())
    }

    fn adts(&self) -> String {
        let tcx = self.tcx;
        let mut v = vec![];
        for id in tcx.hir_crate_items(()).definitions() {
            let did = id.to_def_id();
            let kind = tcx.def_kind(did);
            if !matches!(kind, DefKind::Struct | DefKind::Enum | DefKind::Union) {
                continue;
            }
            let def = tcx.adt_def(did);
            let mut o = Obj::new();
            o.s("path", &self.path(did));
            o.s("kind", &format!("{:?}", kind));
            o.s("span", &self.span(tcx.def_span(did)));
            let mut vars = vec![];
            for (idx, var) in def.variants().iter_enumerated() {
                let mut vo = Obj::new();
                vo.s("name", var.name.as_str());
                vo.n("idx", idx.as_usize() as i128);
                if def.is_enum() {
                    let d = def.discriminant_for_variant(tcx, idx);
                    vo.raw("discr", &d.val.to_string());
                }
                let mut fs = vec![];
                for f in var.fields.iter() {
                    let mut fo = Obj::new();
                    fo.s("name", f.name.as_str());
                    let t = tcx.type_of(f.did).instantiate_identity().skip_norm_wip();
                    fo.s("ty", &self.ty(t));
                    fo.b("pub", f.vis.is_public());
                    fs.push(fo.end());
                }
                vo.raw("fields", &arr(fs));
                vars.push(vo.end());
            }
            o.raw("variants", &arr(vars));
            v.push(o.end());
        }
        arr(v)
    }

    fn impls(&self) -> String {
        let tcx = self.tcx;
        let mut v = vec![];
        for id in tcx.hir_crate_items(()).definitions() {
            let did = id.to_def_id();
            if !matches!(tcx.def_kind(did), DefKind::Impl { .. }) {
                continue;
            }
            let mut o = Obj::new();
            let st = tcx.type_of(did).instantiate_identity().skip_norm_wip();
            o.s("self", &self.ty(st));
            if let Some(a) = self.adt_path_of(st) {
                o.s("self_adt", &a);
            }
            if let Some(tr) = tcx.impl_opt_trait_ref(did) {
                let tr = tr.instantiate_identity().skip_norm_wip();
                o.s("trait", &self.path(tr.def_id));
                o.s("trait_full", &self.fix(np(|| tr.to_string())));
            }
            o.b("derived", tcx.is_automatically_derived(did));
            o.s("span", &self.span(tcx.def_span(did)));
            let mut items = Obj::new();
            for it in tcx.associated_items(did).in_definition_order() {
                items.s(it.name().as_str(), &self.path(it.def_id));
            }
            o.raw("items", &items.end());
            v.push(o.end());
        }
        arr(v)
    }

    fn consts(&self) -> String {
        let tcx = self.tcx;
        let mut v = vec![];
        for id in tcx.hir_crate_items(()).definitions() {
            let did = id.to_def_id();
            let kind = tcx.def_kind(did);
            let is_const = matches!(kind, DefKind::Const { .. } | DefKind::AssocConst { .. });
            let is_static = matches!(kind, DefKind::Static { .. });
            if !is_const && !is_static {
                continue;
            }
            let mut o = Obj::new();
            o.s("path", &self.path(did));
            o.s("kind", if is_const { "const" } else { "static" });
            let t = tcx.type_of(did).instantiate_identity().skip_norm_wip();
            o.s("ty", &self.ty(t));
            o.s("span", &self.span(tcx.def_span(did)));
            let parent_generic = {
                let par = tcx.parent(did);
                matches!(tcx.def_kind(par), DefKind::Impl { .. } | DefKind::Trait | DefKind::Fn | DefKind::AssocFn | DefKind::Closure)
                    && tcx.generics_of(par).count() > 0
            };
            if is_const && tcx.generics_of(did).count() == 0 && !parent_generic {
                let c = Const::Unevaluated(
                    mir::UnevaluatedConst { def: did, args: ty::GenericArgs::empty(), promoted: None },
                    t,
                );
                let env = TypingEnv::fully_monomorphized();
                o.raw("value", &self.konst(&c, env));
            }
            v.push(o.end());
        }
        arr(v)
    }
}

trait HasParam {
    fn has_non_region_param_generic(&self) -> bool;
}
impl<'tcx> HasParam for Const<'tcx> {
    fn has_non_region_param_generic(&self) -> bool {
        use rustc_middle::ty::TypeVisitableExt;
        match self {
            Const::Unevaluated(u, t) => u.args.has_non_region_param() || t.has_non_region_param(),
            Const::Ty(t, c) => t.has_non_region_param() || c.has_non_region_param(),
            Const::Val(_, t) => t.has_non_region_param(),
        }
    }
}

struct Facts;

impl Callbacks for Facts {
    fn after_expansion<'tcx>(&mut self, _c: &Compiler, tcx: TyCtxt<'tcx>) -> Compilation {
        let out_dir = match std::env::var("MIRFACTS_OUT") {
            Ok(d) => d,
            Err(_) => return Compilation::Continue,
        };
        let krate = tcx.crate_name(LOCAL_CRATE).to_string();
        let cx = Cx { tcx, krate: krate.clone(), promoted_units: Default::default() };

        let mut bodies = vec![];
        let mut names = vec![];
        for def in tcx.hir_body_owners() {
            let kind = tcx.def_kind(def.to_def_id());
            if !matches!(kind, DefKind::Fn | DefKind::AssocFn | DefKind::Closure) {
                continue;
            }
            if let Some(b) = cx.body(def) {
                names.push(js(&cx.path(def.to_def_id())));
                bodies.push(b);
            }
        }

        let crate_types: Vec<String> =
            tcx.crate_types().iter().map(|t| js(&format!("{:?}", t))).collect();
        let is_test = tcx.sess.is_test_crate();
        let mut cfgs = vec![];
        for (name, val) in tcx.sess.config.iter() {
            let n = name.as_str();
            if n == "feature" || n == "test" || n == "debug_assertions" || n.starts_with("seliumlabs") {
                match val {
                    Some(v) => cfgs.push(js(&format!("{}={}", n, v.as_str()))),
                    None => cfgs.push(js(n)),
                }
            }
        }
        cfgs.sort();

        let src = tcx
            .sess
            .local_crate_source_file()
            .and_then(|p| p.local_path().map(|p| p.to_string_lossy().into_owned()))
            .unwrap_or_default();

        let mut o = Obj::new();
        o.s("crate", &krate);
        o.raw("crate_types", &arr(crate_types));
        o.b("test", is_test);
        o.raw("cfgs", &arr(cfgs));
        o.s("src", &src);
        o.raw("adts", &cx.adts());
        o.raw("impls", &cx.impls());
        o.raw("body_names", &arr(names));
        o.raw("bodies", &arr(bodies));
        // evaluated last: const evaluation may steal the constants' own MIR
        o.raw("consts", &cx.consts());
        let text = o.end();

        let tag = {
            use std::hash::{Hash, Hasher};
            let mut h = std::collections::hash_map::DefaultHasher::new();
            src.hash(&mut h);
            is_test.hash(&mut h);
            std::env::args().collect::<Vec<_>>().hash(&mut h);
            h.finish()
        };
        let file = format!(
            "{}/{}-{}{}-{:016x}.json",
            out_dir,
            krate,
            format!("{:?}", tcx.crate_types().first()).to_lowercase().replace(['(', ')'], "").replace("some", ""),
            if is_test { "-test" } else { "" },
            tag
        );
        let tmp = format!("{}.tmp{}", file, std::process::id());
        std::fs::write(&tmp, text).expect("mirfacts: cannot write facts");
        std::fs::rename(&tmp, &file).expect("mirfacts: cannot rename facts");
        Compilation::Continue
    }
}

fn main() {
    let mut args: Vec<String> = std::env::args().collect();
    // RUSTC_WORKSPACE_WRAPPER passes the real rustc as argv[1]
    if args.len() > 1 && (args[1].ends_with("rustc") || args[1].contains("/rustc")) {
        args.remove(1);
    }
    let mut cb = Facts;
    rustc_driver::run_compiler(&args, &mut cb);
}
