#!/usr/bin/env python3
"""Mutation self-test: applies each stored mutant (one broken instance) to a scratch copy of
/repo's current tree, runs the property's check against the copy and requires the named rule to
fire. Never touches /repo; the scratch copy and its build output are removed at the end.

usage: selftest/mutate.py [--prop Cxx] [--id substr] [--keep]"""
import argparse, json, os, re, shutil, subprocess, sys, tempfile, time

VERIF = os.path.dirname(os.path.dirname(os.path.abspath(__file__)))
REPO = os.environ.get("VERIF_REPO", "/repo")


def load():
    out = []
    d = os.path.join(VERIF, "selftest", "mutants")
    for f in sorted(os.listdir(d)):
        if f.endswith(".json"):
            for m in json.load(open(os.path.join(d, f))):
                out.append(m)
    # seeded defects written by independent sub-agents (kept under /verif/seeded) double as mutants
    sd = os.path.join(VERIF, "seeded")
    if os.path.isdir(sd):
        for name in sorted(os.listdir(sd)):
            mp = os.path.join(sd, name, "meta.json")
            pp = os.path.join(sd, name, "patch.diff")
            if os.path.exists(mp) and os.path.exists(pp):
                meta = json.load(open(mp))
                out.append({"id": "seed-" + name, "prop": meta["property"], "expect": None, "patch": pp, "edits": []})
    return out


def load_refactors():
    """behaviour-preserving refactorings written by independent sub-agents (selftest/refactors): every check must stay silent on them"""
    out = []
    rd = os.path.join(VERIF, "selftest", "refactors")
    if os.path.isdir(rd):
        for name in sorted(os.listdir(rd)):
            pp = os.path.join(rd, name, "patch.diff")
            if os.path.exists(pp):
                out.append({"id": "refactor-" + name, "prop": None, "expect": None, "patch": pp, "edits": [], "negative": True})
    return out


def apply(root, m):
    """returns None if applied, else reason"""
    if m.get("patch"):
        r = subprocess.run(["git", "apply", "--unsafe-paths", "--directory", root, m["patch"]], capture_output=True, text=True, cwd="/")
        if r.returncode != 0:
            r = subprocess.run(["patch", "-p1", "-s", "-d", root, "-i", m["patch"]], capture_output=True, text=True)
            if r.returncode != 0:
                return "patch does not apply: " + (r.stderr or r.stdout)[-200:]
        return None
    for e in m["edits"]:
        p = os.path.join(root, e["file"])
        if not os.path.exists(p):
            return "file missing: " + e["file"]
        s = open(p).read()
        if e["find"] not in s:
            return "anchor text not found in " + e["file"]
        if s.count(e["find"]) != 1 and not e.get("all"):
            return "anchor text not unique in %s (%d)" % (e["file"], s.count(e["find"]))
        s = s.replace(e["find"], e["replace"])
        open(p, "w").write(s)
    return None


def run(args):
    muts = [m for m in load() if (not args.prop or m["prop"] == args.prop) and (not args.id or args.id in m["id"])]
    if args.prop and not args.no_refactors:
        muts += [dict(r, prop=args.prop) for r in load_refactors() if not args.id or args.id in r["id"]]
    if not muts:
        print("no mutants selected"); return 0
    scratch = tempfile.mkdtemp(prefix="selium-mut-", dir=os.environ.get("VERIF_SCRATCH", "/tmp"))
    copy = os.path.join(scratch, "repo")
    cache = os.path.join(scratch, "cache")
    ev = os.path.join(scratch, "evidence")
    results = []
    try:
        subprocess.check_call(["rsync", "-a", "--exclude", "target", "--exclude", ".git", REPO + "/", copy + "/"])
        pristine = os.path.join(scratch, "pristine")
        shutil.copytree(copy, pristine)
        env = dict(os.environ, VERIF_REPO=copy, VERIF_CACHE=cache, VERIF_EVIDENCE_DIR=ev)
        for m in muts:
            t0 = time.time()
            # restore
            if any(x.get("patch") for x in muts):
                subprocess.check_call(["rsync", "-a", "--delete", pristine + "/", copy + "/"])
            for e in m["edits"]:
                src = os.path.join(pristine, e["file"])
                if os.path.exists(src):
                    shutil.copy(src, os.path.join(copy, e["file"]))
            why = apply(copy, m)
            if why:
                results.append({"id": m["id"], "prop": m["prop"], "status": "skipped", "why": why}); print("SKIP  %-40s %s" % (m["id"], why)); continue
            r = subprocess.run([os.path.join(VERIF, "bin", "check"), m["prop"], "--tier", "quick"], env=env, capture_output=True, text=True)
            out = r.stdout
            fired = [l for l in out.splitlines() if l.startswith("VIOLATION")]
            rules = re.findall(r"^\S+: (C\d+\.[\w.\-]+|anchor|driver|internal): ", out, re.M)
            status = "caught" if fired else "MISSED"
            if m.get("negative"):
                status = "FALSE-ALARM" if fired else "silent"
            if "driver-error" in out or "driver:" in out and "fact extraction failed" in out:
                status = "invalid(does not compile)"
            exp = m.get("expect")
            if fired and exp and not m.get("negative") and not any(x.startswith(exp) for x in rules):
                status = "caught-by-other-rule"
            results.append({"id": m["id"], "prop": m["prop"], "status": status, "rules": sorted(set(rules)), "expect": exp, "s": round(time.time() - t0, 1)})
            print("%-6s %-44s expect=%s got=%s (%.1fs)" % (status, m["id"], exp, sorted(set(rules))[:4], time.time() - t0))
            for e in m["edits"]:
                shutil.copy(os.path.join(pristine, e["file"]), os.path.join(copy, e["file"]))
        # the pristine copy must be silent (no stale state, no false alarm from the harness itself)
        if args.pristine:
            r = subprocess.run([os.path.join(VERIF, "bin", "check"), args.prop or muts[0]["prop"], "--tier", "quick"], env=env, capture_output=True, text=True)
            print("pristine copy:", "silent" if r.returncode == 0 else "ALARM\n" + r.stdout[-2000:])
    finally:
        if not args.keep:
            shutil.rmtree(scratch, ignore_errors=True)
    os.makedirs(os.path.join(VERIF, "selftest", "results"), exist_ok=True)
    tag = args.prop or "all"
    json.dump(results, open(os.path.join(VERIF, "selftest", "results", tag + ".json"), "w"), indent=1)
    missed = [r for r in results if r["status"] in ("MISSED", "FALSE-ALARM")]
    print("%d mutants: %d caught, %d missed, %d refactorings silent, %d false alarms, %d skipped/invalid" % (
        len(results), sum(r["status"].startswith("caught") for r in results), sum(r["status"] == "MISSED" for r in results),
        sum(r["status"] == "silent" for r in results), sum(r["status"] == "FALSE-ALARM" for r in results),
        sum(r["status"] not in ("caught", "MISSED", "caught-by-other-rule", "silent", "FALSE-ALARM") for r in results)))
    return 1 if missed else 0


if __name__ == "__main__":
    ap = argparse.ArgumentParser()
    ap.add_argument("--prop"); ap.add_argument("--id"); ap.add_argument("--keep", action="store_true"); ap.add_argument("--pristine", action="store_true"); ap.add_argument("--quiet", action="store_true"); ap.add_argument("--no-refactors", action="store_true")
    sys.exit(run(ap.parse_args()))
