"""E4 — panic- and allocation-site enumerator with discharge rules (DESIGN.md §1 E4)."""
import re

from . import flow
from .facts import strip_generics, op_local, rv_locals, place_str

# --- tables (frozen; confirmed by reading the vendored sources) -------------------------------

UNWRAPS = {
    "core::option::Option::unwrap": "Option", "core::option::Option::expect": "Option",
    "core::result::Result::unwrap": "Result", "core::result::Result::expect": "Result",
    "core::result::Result::unwrap_err": "Result", "core::result::Result::expect_err": "Result",
}
PANIC_FNS = ("core::panicking::", "std::rt::begin_panic", "std::panicking::", "core::option::unwrap_failed",
             "core::result::unwrap_failed", "core::option::expect_failed")
INDEX = {"core::ops::index::Index::index", "core::ops::index::IndexMut::index_mut"}
PANICKY = {
    # bytes
    "bytes::buf::buf_impl::Buf::advance": "advance past the end",
    "bytes::buf::buf_impl::Buf::copy_to_slice": "not enough bytes",
    "bytes::buf::buf_impl::Buf::copy_to_bytes": "not enough bytes",
    "bytes::bytes::Bytes::split_to": "split index out of bounds",
    "bytes::bytes::Bytes::split_off": "split index out of bounds",
    "bytes::bytes::Bytes::slice": "range out of bounds",
    "bytes::bytes::Bytes::truncate": None,
    "bytes::bytes_mut::BytesMut::split_to": "split index out of bounds",
    "bytes::bytes_mut::BytesMut::split_off": "split index out of bounds",
    # str / String: byte offsets that must fall on a char boundary (a length test does not make them safe)
    "alloc::string::String::truncate": "new_len not on a char boundary",
    "alloc::string::String::split_off": "at not on a char boundary",
    "alloc::string::String::insert": "idx not on a char boundary",
    "alloc::string::String::insert_str": "idx not on a char boundary",
    "alloc::string::String::remove": "idx not on a char boundary",
    "alloc::string::String::drain": "range not on char boundaries",
    "alloc::string::String::replace_range": "range not on char boundaries",
    "core::str::<impl str>::split_at": "mid not on a char boundary",
    "core::str::<impl str>::split_at_mut": "mid not on a char boundary",
    # alloc
    "alloc::vec::Vec::swap_remove": "index out of bounds",
    "alloc::vec::Vec::remove": "index out of bounds",
    "alloc::vec::Vec::insert": "index out of bounds",
    "alloc::vec::Vec::drain": "range out of bounds",
    "alloc::vec::Vec::split_off": "index out of bounds",
    "core::slice::<impl [T]>::copy_from_slice": "length mismatch",
    "core::slice::<impl [T]>::split_at": "index out of bounds",
    "core::str::<impl str>::split_at": "not a char boundary / out of bounds",
    # time
    "core::time::Duration::mul_f64": "overflow / negative / non-finite",
    "core::time::Duration::mul_f32": "overflow / negative / non-finite",
    "core::time::Duration::div_f64": "overflow / negative / non-finite",
    "core::time::Duration::div_f32": "overflow / negative / non-finite",
    "core::time::Duration::from_secs_f64": "overflow / negative / non-finite",
    "core::time::Duration::from_secs_f32": "overflow / negative / non-finite",
    # ints
    "core::num::<impl u64>::pow": "overflow (debug) / wrap (release)",
    "core::num::<impl u32>::pow": "overflow (debug) / wrap (release)",
    "core::num::<impl usize>::pow": "overflow (debug) / wrap (release)",
    "core::num::<impl i32>::abs": "overflow",
    "core::num::<impl i64>::abs": "overflow",
    # cell
    "core::cell::RefCell::borrow": "already mutably borrowed",
    "core::cell::RefCell::borrow_mut": "already borrowed",
}
# operator traits that panic for some self types
OP_TRAITS = {"core::ops::arith::Mul::mul", "core::ops::arith::Add::add", "core::ops::arith::Sub::sub", "core::ops::arith::Div::div",
             "core::ops::arith::AddAssign::add_assign", "core::ops::arith::SubAssign::sub_assign", "core::ops::arith::MulAssign::mul_assign"}
OP_SELF_PANICKY = ("core::time::Duration", "std::time::Instant", "std::time::SystemTime", "tokio::time::instant::Instant")
ALLOC_SIZED = {
    "alloc::vec::Vec::with_capacity": 0, "alloc::vec::Vec::reserve": 1, "alloc::vec::Vec::reserve_exact": 1, "alloc::vec::Vec::resize": 1,
    "bytes::bytes_mut::BytesMut::with_capacity": 0, "bytes::bytes_mut::BytesMut::reserve": 1, "bytes::bytes_mut::BytesMut::resize": 1,
    "alloc::string::String::with_capacity": 0, "alloc::string::String::reserve": 1,
    "alloc::vec::from_elem": 1, "std::collections::hash::map::HashMap::with_capacity": 0,
    "alloc::collections::vec_deque::VecDeque::with_capacity": 0,
    # third-party decoders that pre-allocate a caller-supplied output size
    "zstd::bulk::decompress": 1, "zstd::bulk::decompressor::Decompressor::decompress": 2, "zstd::bulk::Decompressor::decompress": 2,
    "lz4_flex::block::decompress::decompress": 1, "lz4_flex::block::decompress": 1, "lz4_flex::decompress": 1,
    "bytes::bytes_mut::BytesMut::zeroed": 0, "alloc::vec::Vec::resize_with": 1,
}
UNBOUNDED_DESER = {"bincode::deserialize_from", "bincode::config::Options::deserialize_from", "bincode::internal::deserialize_from",
                   "bincode::deserialize_from_custom"}


INT_BITS = {"u8": 8, "u16": 16, "u32": 32, "u64": 64, "u128": 128, "usize": 64, "i8": 8, "i16": 16, "i32": 32, "i64": 64, "i128": 128, "isize": 64}
INT_MAX = {"u8": 2**8 - 1, "u16": 2**16 - 1, "u32": 2**32 - 1, "u64": 2**64 - 1, "usize": 2**64 - 1}


class Site:
    def __init__(self, body, kind, what, span, call=None, bb=None, extra=None):
        self.body, self.kind, self.what, self.span, self.call, self.bb, self.extra = body, kind, what, span, call, bb, extra
        self.ordinal = 0
        self.discharged_by = None
        self.origin = body.blocks[bb].get("origin", body.path) if bb is not None and bb < len(body.blocks) else body.path

    def short_fn(self):
        p = self.origin
        p = re.sub(r"selium(_\w+)?::", "", p)
        return p

    def key(self):
        return "panic:%s:%s#%d" % (self.short_fn(), self.what, self.ordinal)

    def __repr__(self):
        return "Site(%s %s @%s)" % (self.kind, self.what, self.span)


def _span_key(sp):
    m = re.search(r":(\d+):(\d+)$", sp or "")
    return (int(m.group(1)), int(m.group(2))) if m else (0, 0)


def debug_assert_blocks(body):
    """blocks that only run under `cfg!(debug_assertions)`: the true-edge region of the `if cfg!(debug_assertions)` test that
    debug_assert*! expands to (condition evaluation, comparison, panic)"""
    out = set()
    for i, b in enumerate(body.blocks):
        if b.get("cleanup"):
            continue
        for s in b["stmts"]:
            if s["k"] == "assign" and s["rv"]["k"] == "use" and s["rv"]["op"].get("k") == "const" and s["rv"]["op"].get("bool") is True \
                    and any("debug_assert" in m for m in s.get("macros", [])) and any(m.endswith("cfg") for m in s.get("macros", [])):
                t = b["term"]
                if t["k"] == "switch" and t["discr"].get("k") in ("copy", "move") and t["discr"]["pl"]["l"] == s["pl"]["l"]:
                    false_t = None
                    for v, x in t["targets"]:
                        if v == 0:
                            false_t = x
                    true_t = t["otherwise"] if false_t is not None else None
                    if true_t is not None:
                        # everything the true edge reaches before re-joining the path that skipped the assertion
                        out |= flow.reach_avoiding(body, [true_t], [false_t]) - flow.reach_avoiding(body, [false_t], [])
    return out


def enumerate_sites(body, include_alloc=True, narrowing=False):
    sites = []
    for c in body.calls():
        n = strip_generics(c.callee)
        short = n.rsplit("::", 2)
        short = "::".join(short[-2:]) if len(short) > 1 else n
        if n in UNWRAPS:
            sites.append(Site(body, "unwrap", short, c.span, c, c.bb))
        elif n.startswith(PANIC_FNS):
            # explicit panic!/unreachable!/assert! — skip the ones that belong to a lowered `Assert`-like check of the std macros? keep all
            macros = c.macros
            sites.append(Site(body, "panic", "panic!" if not macros else macros[-1].rsplit("::", 1)[-1] + "!", c.span, c, c.bb))
        elif n in INDEX:
            st_ = strip_generics(c.self_ty or "")
            if st_ in ("str", "alloc::string::String") and not (len(c.arg_tys) > 1 and "RangeFull" in c.arg_tys[1]):
                # slicing a string by byte offsets panics off a char boundary: a separate kind that no length rule discharges
                sites.append(Site(body, "strindex", "str[byte range]", c.span, c, c.bb))
            else:
                sites.append(Site(body, "index", "index<%s>" % _short_ty(c.self_ty), c.span, c, c.bb))
        elif n in PANICKY:
            sites.append(Site(body, "api", short, c.span, c, c.bb))
        elif n.startswith("bytes::buf::buf_impl::Buf::get_"):
            sites.append(Site(body, "api", "Buf::" + n.rsplit("::", 1)[-1], c.span, c, c.bb))
        elif n in OP_TRAITS and c.self_ty.startswith(OP_SELF_PANICKY):
            sites.append(Site(body, "arith", "%s::%s" % (_short_ty(c.self_ty), n.rsplit("::", 1)[-1]), c.span, c, c.bb))
        elif n in UNBOUNDED_DESER:
            sites.append(Site(body, "alloc", "bincode::deserialize_from", c.span, c, c.bb))
        if include_alloc and n in ALLOC_SIZED:
            sites.append(Site(body, "alloc", short, c.span, c, c.bb, extra=ALLOC_SIZED[n]))
    if narrowing:
        for i, j, pl, rv, st in body.assigns():
            if rv["k"] == "cast" and rv.get("cast", "").startswith("IntToInt"):
                ft, tt = rv.get("from_ty", ""), rv.get("ty", "")
                if ft in INT_BITS and tt in INT_BITS and (INT_BITS[tt] < INT_BITS[ft] or (INT_BITS[tt] == INT_BITS[ft] and ft[0] != tt[0] and False)):
                    sites.append(Site(body, "cast", "narrowing:%s->%s" % (ft, tt), st["span"], None, i, extra=rv))
    for i, b in enumerate(body.blocks):
        t = b["term"]
        if t["k"] == "assert" and not b.get("cleanup"):
            kind = t["assert"]
            if kind.startswith("resumed"):
                continue
            what = kind
            if kind == "overflow":
                what = "overflow:" + t.get("detail", {}).get("op", "?")
            sites.append(Site(body, "assert", what, t["span"], None, i, extra=t))
    # debug assertions are compiled out of release builds (`cfg(debug_assertions)`): the checks decide the shipped behaviour, so neither the
    # assertion's panic nor the arithmetic inside its condition counts as a site (assumption listed in DESIGN §5)
    def _dbg(s):
        ms = (s.call.macros if s.call is not None else (s.extra or {}).get("macros", [])) if not isinstance(s.extra, str) else []
        if s.call is None and s.bb is not None and s.kind == "assert":
            ms = body.blocks[s.bb]["term"].get("macros", [])
        if s.call is None and s.kind == "cast":
            ms = []
        return any("debug_assert" in m for m in (ms or []))
    dbg_blocks = debug_assert_blocks(body)
    sites = [s for s in sites if not _dbg(s) and s.bb not in dbg_blocks]
    # ordinals per (what) in source order
    groups = {}
    for s in sorted(sites, key=lambda s: (s.origin, _span_key(s.span), s.bb or 0)):
        k = (s.origin, s.what)
        s.ordinal = groups.get(k, 0)
        groups[k] = s.ordinal + 1
    return sites


def _short_ty(t):
    t = strip_generics(t or "")
    t = re.sub(r"<.*$", "", t)
    return t.rsplit("::", 1)[-1] or t


# --- discharge rules -------------------------------------------------------------------------

OPTION_VIEWS = {"core::option::Option::take", "core::option::Option::as_ref", "core::option::Option::as_mut",
                "core::option::Option::as_pin_mut", "core::option::Option::as_deref", "core::option::Option::as_deref_mut"}


def place_identity(body, op, depth=12):
    """canonical string of the place an Option/Result value was read from (through take/as_ref/...)"""
    if op.get("k") not in ("copy", "move"):
        return None
    pl = op["pl"]
    if pl["p"]:
        return canon_place(body, pl)
    l = pl["l"]
    for _ in range(depth):
        if body.debug_name(l) is not None or l <= body.nargs:
            return canon_place(body, {"l": l, "p": []})
        d = flow.single_def(body, l)
        if d is None:
            return canon_place(body, {"l": l, "p": []})
        if d[0] == "call":
            c = d[2]
            n = strip_generics(c.callee)
            if (n in OPTION_VIEWS or n in flow.ADAPTERS) and c.args and c.args[0].get("k") in ("copy", "move"):
                a = c.args[0]["pl"]
                if a["p"]:
                    return canon_place(body, a)
                l = a["l"]
                continue
            return "call:%s@%s" % (n, c.bb)
        if d[0] == "assign":
            rv = d[3]
            if rv["k"] in ("use", "cast") and rv["op"].get("k") in ("copy", "move"):
                a = rv["op"]["pl"]
                if a["p"]:
                    return canon_place(body, a)
                l = a["l"]
                continue
            if rv["k"] == "ref":
                a = rv["pl"]
                if a["p"] and not (a["p"] == ["*"]):
                    return canon_place(body, a)
                l = a["l"]
                if not a["p"]:
                    # &local : identity is the local itself
                    if body.debug_name(l) is not None:
                        return canon_place(body, {"l": l, "p": []})
                continue
            return None
        return None
    return None


def canon_place(body, pl):
    """resolve the base local through reborrows to a named root: e.g. (*_8) -> *buffered_item"""
    l = pl["l"]
    proj = list(pl["p"])
    for _ in range(12):
        if body.debug_name(l) is not None or l <= body.nargs:
            break
        d = flow.single_def(body, l)
        if d is not None and d[0] == "call" and strip_generics(d[2].callee) in flow.ADAPTERS and d[2].args and d[2].args[0].get("k") in ("copy", "move"):
            # l = deref(&P) / as_mut(..): same storage as its receiver
            a = d[2].args[0]["pl"]
            proj = list(a["p"]) + proj
            l = a["l"]
            continue
        if d is None or d[0] != "assign":
            break
        rv = d[3]
        if rv["k"] == "ref":
            # l = &P ; (*l).x  == P.x
            if proj and proj[0] == "*":
                proj = list(rv["pl"]["p"]) + proj[1:]
            else:
                break
            l = rv["pl"]["l"]
            continue
        if rv["k"] in ("use", "cast") and rv["op"].get("k") in ("copy", "move"):
            proj = list(rv["op"]["pl"]["p"]) + proj
            l = rv["op"]["pl"]["l"]
            continue
        break
    name = body.debug_name(l) or "_%d" % l

    def pe(e):
        if e == "*":
            return "*"
        if isinstance(e, int):
            return ".%d" % e
        if isinstance(e, dict) and "v" in e:
            return "@%s" % e.get("vn", e["v"])
        return "[]"
    # drop derefs: a place and a reborrow of it are the same storage for our purposes
    return name + "".join(pe(e) for e in proj if e != "*")


def d1_option_guard(site, body):
    """unwrap of Option P dominated by is_some(P) true / is_none(P) false edge"""
    if site.kind != "unwrap" or not site.what.startswith("Option"):
        return None
    ident = place_identity(body, site.call.args[0])
    if ident is None:
        return None
    for i, b in enumerate(body.blocks):
        if b.get("cleanup"):
            continue
        sc = flow.switch_condition(body, i)
        if not sc or sc.get("kind") != "call":
            continue
        c = sc["call"]
        n = strip_generics(c.callee)
        if n not in ("core::option::Option::is_some", "core::option::Option::is_none"):
            continue
        gid = place_identity(body, c.args[0])
        if gid != ident:
            continue
        want_true = (n == "core::option::Option::is_some") != bool(sc.get("neg"))
        edge = sc["true"] if want_true else sc["false"]
        other = sc["false"] if want_true else sc["true"]
        # edge dominance: the site is reachable only through `edge`, i.e. not reachable from `other` without passing the switch again
        if body.dominates(i, site.bb) and site.bb in flow.reach_avoiding(body, [edge], []) and site.bb not in flow.reach_avoiding(body, [other], [i]):
            # no intervening take()/assignment of the same place between the guard and the site
            between = flow.blocks_between(body, edge, site.bb)
            for c2 in body.calls():
                if c2.bb in between and c2.bb != site.bb and strip_generics(c2.callee) in ("core::option::Option::take", "core::option::Option::insert", "core::option::Option::replace"):
                    if place_identity(body, c2.args[0]) == ident and c2.dest and not _feeds(body, c2, site.call):
                        return None
            return "D1: guarded by %s(%s) at %s" % (n.rsplit("::", 1)[-1], ident, c.span)
    return None


def _feeds(body, producer, consumer):
    if producer.dest is None:
        return False
    d = flow.derived(body, {producer.dest["l"]}, calls="adapters")
    return any(op_local(a) in d for a in consumer.args)


def d2_map_guard(site, body):
    """map.remove/get/get_mut(k).unwrap() dominated by contains_key(k)==true on the same map"""
    if site.kind != "unwrap" or not site.what.startswith("Option"):
        return None
    r = flow.root(body, site.call.args[0], through_calls=())
    if r[0] != "call":
        return None
    acc = r[1]
    n = strip_generics(acc.callee)
    if n not in ("std::collections::hash::map::HashMap::remove", "std::collections::hash::map::HashMap::get", "std::collections::hash::map::HashMap::get_mut"):
        return None
    mid = place_identity(body, acc.args[0])
    kroot = flow.root(body, acc.args[1])
    for i, b in enumerate(body.blocks):
        sc = flow.switch_condition(body, i)
        if not sc or sc.get("kind") != "call":
            continue
        c = sc["call"]
        if strip_generics(c.callee) != "std::collections::hash::map::HashMap::contains_key":
            continue
        if place_identity(body, c.args[0]) != mid:
            continue
        k2 = flow.root(body, c.args[1])
        same = (k2[0] == kroot[0] == "const" and k2[1].get("item", k2[1].get("str")) == kroot[1].get("item", kroot[1].get("str"))) or \
               (k2[0] != "const" and kroot[0] != "const" and k2[1:2] == kroot[1:2])
        if not same:
            continue
        edge = sc["false"] if sc.get("neg") else sc["true"]
        other = sc["true"] if sc.get("neg") else sc["false"]
        if body.dominates(i, site.bb) and site.bb not in flow.reach_avoiding(body, [other], [i]):
            return "D2: guarded by contains_key at %s" % c.span
    return None


def d4_infallible(site, body):
    if site.kind == "index":
        # RangeFull indexing never panics
        c = site.call
        if len(c.arg_tys) > 1 and "RangeFull" in c.arg_tys[1]:
            return "D4: RangeFull index"
    if site.kind == "api" and site.what in ("Vec::drain",) and len(site.call.arg_tys) > 1 and "RangeFull" in site.call.arg_tys[1]:
        return "D4: drain(..) over the full range"
    return None


def d5_counter(site, body):
    if site.kind == "assert" and site.what.startswith("overflow:Add"):
        det = site.extra.get("detail", {})
        b = det.get("b", {})
        a_ty = None
        if flow.const_of(b) == 1:
            # operand type
            al = op_local(det.get("a", {}))
            if al is not None:
                a_ty = body.local_ty(al)
                if det["a"]["pl"]["p"]:
                    a_ty = a_ty.replace("&mut ", "").replace("&", "")
            else:
                a_ty = "usize"
            if a_ty not in ("usize", "u64") and b.get("ty") in ("usize", "u64"):
                a_ty = b["ty"]          # a projected place (`*counter`, `self.n`): both operands of the addition have one type
            if a_ty in ("usize", "u64"):
                return "D5: +1 on a %s counter" % a_ty
    return None


INT_TYS = ("u8", "u16", "u32", "u64", "u128", "usize", "i8", "i16", "i32", "i64", "i128")


def cmp_guards(body, site_bb):
    """comparisons whose one edge dominates the site: yields (op, a_operand, b_operand, holds) where
    (a op b) is known to hold at the site"""
    out = []
    for i, b in enumerate(body.blocks):
        if b.get("cleanup"):
            continue
        sc = flow.switch_condition(body, i)
        t_ = b["term"]
        if (not sc or sc.get("kind") != "cmp") and t_["k"] == "switch" and t_.get("discr_ty") in INT_TYS and len(t_.get("targets", [])) == 1 and \
                t_["discr"].get("k") in ("copy", "move") and body.dominates(i, site_bb) and i != site_bb:
            # `if x == K {..}` on an integer is a switchInt without a comparison: x != K holds on the otherwise edge
            v_, tgt = t_["targets"][0]
            kop = {"k": "const", "ty": t_["discr_ty"], "int": v_}
            via_t = site_bb in flow.reach_avoiding(body, [tgt], [i])
            via_o = site_bb in flow.reach_avoiding(body, [t_["otherwise"]], [i])
            if via_o and not via_t:
                out.append(("Ne", t_["discr"], kop, i))
            elif via_t and not via_o:
                out.append(("Eq", t_["discr"], kop, i))
            continue
        if not sc or sc.get("kind") != "cmp":
            continue
        if not body.dominates(i, site_bb) or i == site_bb:
            continue
        via_true = site_bb in flow.reach_avoiding(body, [sc["true"]], [i])
        via_false = site_bb in flow.reach_avoiding(body, [sc["false"]], [i])
        if via_true and not via_false:
            out.append((sc["op"], sc["a"], sc["b"], i))
        elif via_false and not via_true:
            out.append((flow._NEG[sc["op"]], sc["a"], sc["b"], i))
    return out


LEN_CALLS = {"bytes::bytes_mut::BytesMut::len", "bytes::bytes::Bytes::len", "bytes::buf::buf_impl::Buf::remaining",
             "core::slice::<impl [T]>::len", "alloc::vec::Vec::len", "core::str::<impl str>::len", "alloc::string::String::len"}


def len_derived(body):
    src = {c.dest["l"] for c in body.calls() if strip_generics(c.callee) in LEN_CALLS and c.dest}
    return flow.derived(body, src, calls="adapters")


def bounded_by_remaining(site, body, arg_index, strict=True):
    """the size/offset argument is dominated by a comparison `arg <= len-derived` (or `len-derived >= arg`)"""
    c = site.call
    if arg_index >= len(c.args):
        return None
    a = c.args[arg_index]
    if flow.const_of(a) is not None:
        return None
    aroot = flow.root_local(body, a)
    lens = len_derived(body)
    argvals = flow.derived(body, {aroot}, calls="adapters") if aroot is not None else set()
    for op, x, y, gbb in cmp_guards(body, site.bb):
        xl, yl = op_local(x), op_local(y)
        xr = flow.root_local(body, x) if xl is not None else None
        yr = flow.root_local(body, y) if yl is not None else None
        x_is_arg = xl in argvals or xr == aroot
        y_is_arg = yl in argvals or yr == aroot
        x_is_len = xl in lens
        y_is_len = yl in lens
        for is_arg, lenop, ops in ((x_is_arg and y_is_len, y, ("Le", "Lt")), (y_is_arg and x_is_len, x, ("Ge", "Gt"))):
            if is_arg and op in ops:
                if not strict:
                    return "bounded: arg %s an input-length-derived quantity (guard bb%d)" % (op, gbb)
                lc, k = len_call_of(body, lenop)
                c = consumed_between(body, lc, site)
                if lc is None:
                    k, c = 0, 0
                if k is None or c is None or k < c:
                    continue
                return "bounded: arg %s remaining - %d, %d consumed since (guard bb%d)" % (op, k, c, gbb)
    return None


CONSUMERS = ("advance", "split_to", "split_off", "copy_to_slice", "copy_to_bytes", "truncate", "clear", "split", "take")


def len_call_of(body, op):
    """(len()/remaining() call, K) such that the operand equals len - K (single-def chain through `- const`, `/ const`, casts)"""
    seen = 0
    cur = op
    k = 0
    exact = True
    while seen < 8:
        seen += 1
        r = flow.root(body, cur)
        if r[0] == "call" and strip_generics(r[1].callee) in LEN_CALLS:
            return r[1], (k if exact else None)
        if r[0] == "rv" and r[1]["k"] == "binop":
            if r[1]["op"] in ("Sub", "SubWithOverflow") and flow.const_of(r[1]["b"]) is not None:
                k += flow.const_of(r[1]["b"])
            else:
                exact = False
            cur = r[1]["a"]
            continue
        if r[0] == "rv" and r[1]["k"] == "cast":
            cur = r[1]["op"]
            continue
        if r[0] == "rv" and r[1]["k"] == "use" and len(r) > 4:
            # `.0` of a checked-arithmetic tuple
            pl = r[1]["op"]["pl"]
            cur = {"k": "copy", "pl": {"l": pl["l"], "p": []}}
            continue
        return None, None
    return None, None


CONST_READS = {"get_u8": 1, "get_i8": 1, "get_u16": 2, "get_u16_le": 2, "get_u32": 4, "get_u32_le": 4, "get_u64": 8, "get_u64_le": 8, "get_i64": 8, "get_u128": 16}


def consumed_between(body, lencall, site):
    """bytes certainly-bounded consumed from the measured buffer between the measurement and the site:
    returns the constant total, or None if some consumer of unknown size can run in between"""
    if lencall is None:
        return 0
    buf = place_identity(body, lencall.args[0])
    total = 0
    after = flow.reach_avoiding(body, [lencall.target] if lencall.target is not None else [], [])
    for c in body.calls():
        if c is site.call or c.bb == site.bb or c.target is None:
            continue
        n = strip_generics(c.callee).rsplit("::", 1)[-1]
        if not (n in CONSUMERS or n.startswith("get_")):
            continue
        if not c.args or place_identity(body, c.args[0]) != buf:
            continue
        # can this consumer run after the measurement and before the site, without the measurement being taken again?
        if c.bb in after and site.bb in flow.reach_avoiding(body, [c.target], [lencall.bb]):
            if n in CONST_READS:
                size = CONST_READS[n]
            elif n == "advance" and len(c.args) > 1 and flow.const_of(c.args[1]) is not None:
                size = flow.const_of(c.args[1])
            else:
                return None
            # inside a loop the same consumer may run an unbounded number of times before the site
            lp = [l for l in flow.loops(body) if c.bb in l]
            if lp and lencall.bb not in lp[0]:
                return None
            total += size
    return total


def const_remaining_guard(site, body, need):
    """a fixed-size read of `need` bytes is dominated by a comparison `len - K >= G`; with C constant bytes consumed since the
    measurement this proves remaining >= need iff G + K - C >= need"""
    lens = len_derived(body)
    for op, x, y, gbb in cmp_guards(body, site.bb):
        xv, yv = flow.const_of(x), flow.const_of(y)
        for lenop, cv, ops in ((x, yv, {"Ge": 0, "Gt": 1}), (y, xv, {"Le": 0, "Lt": 1})):
            if op_local(lenop) in lens and cv is not None and op in ops:
                g = cv + ops[op]
                lc, k = len_call_of(body, lenop)
                c = consumed_between(body, lc, site)
                if lc is None:
                    k, c = 0, 0
                if k is None or c is None:
                    continue
                if g + k - c >= need:
                    return "guard: remaining - %d %s %d, %d consumed since (bb%d)" % (k, op, cv, c, gbb)
    return None


FIXED_READ = {"Buf::get_u8": 1, "Buf::get_i8": 1, "Buf::get_u16": 2, "Buf::get_u32": 4, "Buf::get_u64": 8, "Buf::get_u64_le": 8,
              "Buf::get_u32_le": 4, "Buf::get_u16_le": 2, "Buf::get_u128": 16, "Buf::get_i64": 8, "Buf::get_i32": 4}


def rule_buffer_bounds(site, body):
    """Buf::get_*/advance/split_to bounded by a dominating comparison against the remaining length"""
    if site.kind != "api":
        return None
    if site.what in FIXED_READ:
        return const_remaining_guard(site, body, FIXED_READ[site.what])
    if site.what in ("Buf::advance", "BytesMut::split_to", "Bytes::split_to", "Buf::copy_to_bytes", "Bytes::split_off", "BytesMut::split_off"):
        a = site.call.args[1] if len(site.call.args) > 1 else None
        if a is not None and flow.const_of(a) is not None:
            return const_remaining_guard(site, body, flow.const_of(a))
        return bounded_by_remaining(site, body, 1)
    return None


def rule_alloc_size(site, body):
    """allocation size derives from an input length, a constant, or is bounded by a dominating comparison"""
    if site.kind != "alloc" or site.extra is None:
        return None
    idx = site.extra
    c = site.call
    if idx >= len(c.args):
        return None
    a = c.args[idx]
    if flow.const_of(a) is not None:
        return "alloc: constant size"
    lens = len_derived(body)
    if op_local(a) in lens:
        return "alloc: size derives from an input length"
    r = flow.root(body, a)
    if r[0] == "call" and strip_generics(r[1].callee) in LEN_CALLS:
        return "alloc: size is a length"
    if r[0] == "const":
        return "alloc: constant size"
    b = bounded_by_remaining(site, body, idx, strict=False)
    if b:
        return "alloc: " + b
    return None


def _range_const(body, op):
    """(kind, n) for RangeTo(..n) / RangeToInclusive / Range(0..n) aggregates with constant bounds"""
    r = flow.root(body, op)
    if r[0] == "rv" and r[1]["k"] == "agg" and r[1].get("agg") == "adt":
        adt = r[1]["adt"].rsplit("::", 1)[-1]
        vals = [flow.const_of(o) for o in r[1]["ops"]]
        if adt == "RangeTo" and vals[0] is not None:
            return vals[0]
        if adt == "Range" and None not in vals:
            return vals[1]
        if adt == "RangeToInclusive" and vals[0] is not None:
            return vals[0] + 1
    return None


def rule_const_slice(site, body):
    """buf[..N] with constant N, dominated by a guard len >= M, M >= N"""
    if site.kind != "index":
        return None
    c = site.call
    if len(c.args) < 2:
        return None
    n = _range_const(body, c.args[1])
    if n is None:
        return None
    g = const_remaining_guard(site, body, n)
    return ("D6-rule: constant range ..%d, %s" % (n, g)) if g else None


def _static_len(body, op):
    """statically known length of a slice operand: &[T; N] unsized, or buf[..N]"""
    r = flow.root(body, op, through_calls=())
    l = op_local(op)
    # unsize cast from an array reference
    cur = op
    for _ in range(6):
        rr = flow.root(body, cur, through_calls=())
        if rr[0] == "rv" and len(rr) > 4:
            rv = rr[1]
            if rv["k"] == "cast" and "Unsize" in rv.get("cast", ""):
                m = re.search(r"\[[^;\]]+; (\d+)\]", rv.get("from_ty", ""))
                if m:
                    return int(m.group(1))
        if rr[0] == "call" and strip_generics(rr[1].callee) in INDEX:
            return _range_const(body, rr[1].args[1])
        break
    # look one step through plain copies
    d = flow.single_def(body, l) if l is not None else None
    if d and d[0] == "assign":
        rv = d[3]
        if rv["k"] == "cast" and "Unsize" in rv.get("cast", ""):
            m = re.search(r"\[[^;\]]+; (\d+)\]", rv.get("from_ty", ""))
            if m:
                return int(m.group(1))
        if rv["k"] in ("use", "ref"):
            inner = rv.get("op") or {"k": "copy", "pl": rv["pl"]}
            if inner.get("k") in ("copy", "move"):
                d2 = flow.single_def(body, inner["pl"]["l"])
                if d2 and d2[0] == "call" and strip_generics(d2[2].callee) in INDEX:
                    return _range_const(body, d2[2].args[1])
                if d2 and d2[0] == "assign" and d2[3]["k"] in ("use", "ref"):
                    inner2 = d2[3].get("op") or {"k": "copy", "pl": d2[3]["pl"]}
                    if inner2.get("k") in ("copy", "move"):
                        d3 = flow.single_def(body, inner2["pl"]["l"])
                        if d3 and d3[0] == "call" and strip_generics(d3[2].callee) in INDEX:
                            return _range_const(body, d3[2].args[1])
    return None


def rule_copy_from_slice(site, body):
    if site.kind != "api" or site.what != "<impl [T]>::copy_from_slice":
        return None
    a = _static_len(body, site.call.args[0])
    b = _static_len(body, site.call.args[1])
    if a is not None and a == b:
        return "D6-rule: both slices have the static length %d" % a
    return None


def rule_sub_guard(site, body):
    """len - N with a dominating guard len >= N"""
    if site.kind != "assert" or site.what != "overflow:Sub":
        return None
    det = site.extra.get("detail", {})
    n = flow.const_of(det.get("b", {}))
    if n is None or op_local(det.get("a", {})) not in len_derived(body):
        return None
    g = const_remaining_guard(site, body, n)
    return ("D6-rule: len - %d, %s" % (n, g)) if g else None


def rule_div_const(site, body):
    """division / remainder by a non-zero constant"""
    if site.kind == "assert" and site.what in ("div_zero", "rem_zero"):
        c = flow.root(body, site.extra["cond"])
        if c[0] == "rv" and c[1]["k"] == "binop":
            v = flow.const_of(c[1]["a"])
            if v is None:
                rr = flow.root(body, c[1]["a"])
                v = flow.const_of(rr[1]) if rr[0] == "const" else None
            if v not in (None, 0):
                return "D4: division by the non-zero constant %s" % v
    return None




def _expr_key(body, op, depth=4):
    """structural key of the expression an operand evaluates (value-numbering light)"""
    c = flow.const_of(op)
    if c is not None:
        return ("c", c)
    if op.get("k") in ("copy", "move") and any(e != "*" for e in op["pl"]["p"]):
        return ("place", canon_place(body, op["pl"]))        # a field read used directly as an operand
    r = flow.root(body, op)
    if r[0] == "const":
        return ("c", flow.const_of(r[1]))
    if r[0] == "rv" and r[1]["k"] == "binop" and depth > 0:
        return ("b", r[1]["op"], _expr_key(body, r[1]["a"], depth - 1), _expr_key(body, r[1]["b"], depth - 1))
    if r[0] == "rv" and r[1]["k"] == "cast" and depth > 0:
        return ("cast", r[1].get("ty"), _expr_key(body, r[1]["op"], depth - 1))
    if r[0] == "call":
        return ("call", strip_generics(r[1].callee), r[1].bb)
    if r[0] in ("arg", "multi", "local", "yield"):
        return ("l", r[1])
    if r[0] == "rv" and r[1]["k"] in ("use", "ref") and len(r) > 4:
        pl = r[1]["op"]["pl"] if r[1]["k"] == "use" else r[1]["pl"]
        return ("place", canon_place(body, pl))
    if r[0] == "rv" and len(r) > 4:
        return ("l", r[4])
    return ("?", id(op))


def rule_narrowing_cast(site, body):
    """`x as <narrower>`: x is a remainder by a small constant, or a dominating comparison bounds the same expression by the target's MAX"""
    if site.kind != "cast":
        return None
    rv = site.extra
    tt = rv["ty"]
    tmax = INT_MAX.get(tt)
    if tmax is None:
        return None
    src = flow.root(body, rv["op"])
    if src[0] == "rv" and src[1]["k"] == "binop" and src[1]["op"] == "Rem":
        d = flow.const_of(src[1]["b"])
        if d is None:
            rr = flow.root(body, src[1]["b"])
            d = flow.const_of(rr[1]) if rr[0] == "const" else None
        if d is not None and d - 1 <= tmax:
            return "cast: remainder by %d fits %s" % (d, tt)
    if src[0] == "const" and flow.const_of(src[1]) is not None and flow.const_of(src[1]) <= tmax:
        return "cast: constant fits"
    key = _expr_key(body, rv["op"])
    for op, x, y, gbb in cmp_guards(body, site.bb):
        kx, ky = _expr_key(body, x), _expr_key(body, y)
        if kx == key and ky[0] in ("c", "cast") :
            lim = ky[1] if ky[0] == "c" else (ky[2][1] if ky[2][0] == "c" else None)
            if lim is not None and ((op == "Le" and lim <= tmax) or (op == "Lt" and lim <= tmax + 1)):
                return "cast: guarded by %s %s (bb%d)" % (op, lim, gbb)
        if ky == key and kx[0] in ("c", "cast"):
            lim = kx[1] if kx[0] == "c" else (kx[2][1] if kx[2][0] == "c" else None)
            if lim is not None and ((op == "Ge" and lim <= tmax) or (op == "Gt" and lim <= tmax + 1)):
                return "cast: guarded by %s %s (bb%d)" % (op, lim, gbb)
    return None


def analyse(ctx, bodies, rule_prefix, extra_rules=(), table=None, skip=None, include_alloc=True, F=None, must_ok=None, narrowing=False):
    """Enumerate and discharge. A site in a helper function that cannot be discharged locally is retried in the context of every
    caller within `bodies` (the helper inlined into the caller), so that a guard may sit on either side of an extracted function."""
    sites_all = []
    rules = list(extra_rules) + DEFAULT_RULES
    pending = []
    by_path = {b.path: b for b in bodies}

    def try_rules(s, b):
        for r in rules:
            reason = r(s, b)
            if reason:
                return reason
        if must_ok is not None and s.kind == "unwrap" and s.what.startswith("Result"):
            rt = flow.root(b, s.call.args[0], through_calls=())
            if rt[0] == "call":
                res = rt[1].t.get("resolved") or rt[1].callee
                if res in must_ok:
                    return "D3: callee %s never returns Err" % res
        return None
    for b in bodies:
        ctx.touch(b)
        for s in enumerate_sites(b, include_alloc=include_alloc, narrowing=narrowing):
            if skip and skip(s):
                continue
            sites_all.append(s)
            reason = try_rules(s, b)
            if not reason and table and s.key() in table:
                why, ob = table[s.key()]
                if ob(b, s):
                    reason = "D6: %s" % why
                else:
                    ctx.fail(rule_prefix + ".obligation", s.key() + ":obligation",
                             "guard obligation of listed site no longer holds (%s): %s in %s" % (why, s.what, b.path), s.span)
                    continue
            if reason:
                s.discharged_by = reason
                ctx.discharged(rule_prefix, "%s in %s" % (s.what, s.short_fn()), s.span, reason)
            else:
                pending.append((s, b))
    for s, b in pending:
        reason = None
        if F is not None:
            callers = [cb for cb in bodies if cb is not b and any((c.t.get("resolved") or c.callee) == b.path for c in cb.calls())]
            if callers:
                oks = []
                for cb in callers:
                    ib = F.inlined(cb)
                    twin = [x for x in enumerate_sites(ib, include_alloc=include_alloc, narrowing=narrowing) if x.origin == b.path and x.what == s.what and x.ordinal == s.ordinal]
                    r = None
                    for x in twin:
                        r = try_rules(x, ib)
                        if not r:
                            break
                    oks.append(r if twin else None)
                if oks and all(oks):
                    reason = "guarded in every caller (%d): %s" % (len(oks), oks[0])
            if not reason and not callers:
                # a closure (or helper) that reaches its users only through std combinators (`poll.map(|r| r.unwrap())` inside a helper):
                # every function of the region into which the inliner wrote this body out provides a context
                oks = []
                for cb in bodies:
                    if cb is b:
                        continue
                    ib = F.inlined(cb)
                    if ib is cb or not any(bl.get("origin") == b.path for bl in ib.blocks):
                        continue
                    twin = [x for x in enumerate_sites(ib, include_alloc=include_alloc, narrowing=narrowing) if x.origin == b.path and x.what == s.what and x.ordinal == s.ordinal]
                    r = None
                    for x in twin:
                        r = try_rules(x, ib)
                        if not r:
                            break
                    if twin:
                        oks.append(r)
                if oks and all(oks):
                    reason = "guarded wherever it is written out (%d function(s)): %s" % (len(oks), oks[0])
            if not reason and not getattr(b, "inlined", False):
                # the guard and the use may go through small local helpers (a validated-length newtype's accessors): retry the same
                # site with the helpers this function calls written out
                ib = F.inlined(b)
                if ib is not b:
                    twin = [x for x in enumerate_sites(ib, include_alloc=include_alloc, narrowing=narrowing) if x.origin == b.path and x.what == s.what and x.ordinal == s.ordinal]
                    rs = [try_rules(x, ib) for x in twin]
                    if twin and all(rs):
                        reason = "with local helpers inlined: %s" % rs[0]
        if reason:
            s.discharged_by = reason
            ctx.discharged(rule_prefix, "%s in %s" % (s.what, s.short_fn()), s.span, reason)
        else:
            ctx.fail(rule_prefix, s.key(), "undischarged %s site `%s` in %s (a peer-/configuration-controlled value can reach it)"
                     % (s.kind, s.what, b.path), s.span)
    return sites_all


def must_return_ok(F, body, memo=None):
    """every Return is reached with _0 = Ok(..) | Ready(Ok(..)) | Pending (never Err). Conservative and syntactic, evaluated on the body
    with workspace-local callees inlined: every value that can flow into _0 is such an aggregate; no `?` propagation."""
    try:
        ib = F.inlined(body) if F is not None else body
    except Exception:
        ib = body
    for c in ib.calls():
        if strip_generics(c.callee) == "core::ops::try_trait::FromResidual::from_residual":
            return False

    def val_ok(l, seen, want):
        if (l, want) in seen:
            return True
        seen = seen | {(l, want)}
        defs = ib.defs().get(l, [])
        if not defs:
            return False
        for d in defs:
            if d[0] != "assign":
                return False
            rv = d[3]
            if rv["k"] == "agg" and rv.get("agg") == "adt":
                if rv["adt"] == "core::result::Result":
                    if rv["variant"] != "Ok":
                        return False
                    continue
                if rv["adt"] == "core::task::poll::Poll" and want == "top":
                    if rv["variant"] == "Pending":
                        continue
                    o = rv["ops"][0]
                    if o.get("k") in ("copy", "move") and not o["pl"]["p"] and val_ok(o["pl"]["l"], seen, "result"):
                        continue
                    return False
                return False
            if rv["k"] == "use" and rv["op"].get("k") in ("copy", "move") and not rv["op"]["pl"]["p"]:
                if val_ok(rv["op"]["pl"]["l"], seen, want):
                    continue
                return False
            return False
        return True
    return val_ok(0, frozenset(), "top")


SHRINKERS = {"alloc::vec::Vec::swap_remove", "alloc::vec::Vec::remove", "alloc::vec::Vec::pop", "alloc::vec::Vec::truncate", "alloc::vec::Vec::clear",
             "alloc::vec::Vec::drain", "alloc::vec::Vec::retain", "alloc::vec::Vec::split_off"}


def _vec_identity(body, op):
    return place_identity(body, op) if op.get("k") in ("copy", "move") else None


def rule_loop_index(site, body):
    """vec[idx] / vec.swap_remove(idx) inside a sweep loop: a dominating guard idx < len(vec) whose bound is *fresh* —
    re-read after every removal that can come back to the guard — and no removal between guard and use"""
    if not (site.kind == "index" or (site.kind == "api" and site.what in ("Vec::swap_remove", "Vec::remove"))):
        return None
    c = site.call
    if len(c.args) < 2:
        return None
    vec_id = _vec_identity(body, c.args[0])
    idx_root = flow.root_local(body, c.args[1])
    if vec_id is None or idx_root is None:
        return None
    lens = [x for x in body.calls() if strip_generics(x.callee) in ("alloc::vec::Vec::len", "core::slice::<impl [T]>::len") and x.dest and _vec_identity(body, x.args[0]) == vec_id]
    shr = [x for x in body.calls() if strip_generics(x.callee) in SHRINKERS and _vec_identity(body, x.args[0]) == vec_id]
    loops_ = flow.loops(body)
    lp = None
    for l in loops_:
        if site.bb in l:
            lp = l
    if lp is None:
        lp = set()
    # (a) comparison guard idx < len
    for op, x, y, gbb in cmp_guards(body, site.bb):
        xi, yi = flow.root_local(body, x) if op_local(x) is not None else None, flow.root_local(body, y) if op_local(y) is not None else None
        for lc in lens:
            lv = flow.derived(body, {lc.dest["l"]}, calls=())
            def _idx_plus(o):
                # `idx + c < len` (c a non-negative constant) implies `idx < len`
                if op_local(o) is None:
                    return False
                r_ = flow.root(body, o)
                for _ in range(3):
                    # the `.0` of a checked addition's (value, overflowed) pair
                    src_ = r_[1]["op"] if r_[0] == "rv" and r_[1]["k"] == "use" and r_[1]["op"].get("k") in ("copy", "move") else (o if r_[0] in ("local", "multi") else None)
                    if src_ is not None and src_["pl"]["p"] == [0]:
                        d_ = flow.single_def(body, src_["pl"]["l"])
                        if d_ and d_[0] == "assign":
                            r_ = ("rv", d_[3])
                            continue
                    break
                if r_[0] == "rv" and r_[1]["k"] == "binop" and r_[1]["op"] in ("Add", "AddWithOverflow", "AddUnchecked"):
                    cv = flow.const_of(r_[1]["b"])
                    return isinstance(cv, int) and cv >= 0 and op_local(r_[1]["a"]) is not None and flow.root_local(body, r_[1]["a"]) == idx_root
                return False
            is_lt = (op == "Lt" and (xi == idx_root or _idx_plus(x)) and op_local(y) in lv) or (op == "Gt" and (yi == idx_root or _idx_plus(y)) and op_local(x) in lv)
            if not is_lt:
                continue
            glp = lp
            if gbb not in glp:
                glp = next((l for l in loops_ if gbb in l), set())     # the use sits on a path that leaves the sweep loop (break / return)
            lp_ = glp
            sc = flow.switch_condition(body, gbb)
            edge = sc["true"] if sc["op"] == op else sc["false"]
            # no removal between guard and use
            between = flow.reach_avoiding(body, [edge], [gbb])
            pre = [h for h in shr if h.bb in between and site.bb in flow.reach_avoiding(body, [h.target], [gbb]) and h is not c]
            if pre:
                continue
            # freshness: every removal in the loop that can reach the guard again must pass the len() call first
            stale = [h for h in shr if gbb in flow.reach_avoiding(body, [h.target] if h.target is not None else [], [lc.bb])]
            if lc.bb not in lp_:
                stale = [h for h in shr if gbb in flow.reach_avoiding(body, [h.target] if h.target is not None else [], [])]
            if stale:
                continue
            return "loop-index: guarded by idx < len() (bb%d) with the bound re-read after every removal" % gbb
    # (d) the Some arm of `v.get(idx)` / `v.get_mut(idx)` on the same vector with the same index, no removal in between
    for g in body.calls():
        if strip_generics(g.callee) in ("core::slice::<impl [T]>::get_mut", "core::slice::<impl [T]>::get") and len(g.args) > 1 and g.dest is not None:
            if flow.root_local(body, g.args[1]) != idx_root:
                continue
            src = flow.root(body, g.args[0], through_calls=tuple(flow.ADAPTERS))
            gid = None
            if src[0] == "rv" and "pl" in src[1]:
                gid = place_identity(body, {"k": "copy", "pl": src[1]["pl"]})
            elif src[0] in ("arg", "multi", "local"):
                gid = place_identity(body, {"k": "copy", "pl": {"l": src[1], "p": []}})
            if gid != vec_id:
                continue
            m = flow.switch_after_call(body, g, want_bb=True)
            if not m or "Some" not in m[0]:
                continue
            some_t, sbb = m[0]["Some"], m[1]
            if not (body.dominates(some_t, site.bb) or site.bb == some_t):
                continue
            after = {x for x in flow.reach_avoiding(body, [some_t], [site.bb, sbb]) if site.bb in flow.reach_avoiding(body, [x], [sbb])}
            # the index must not change and nothing may be removed between the test and the use
            idx_writes = [i2 for i2, j2, pl2, rv2, s2 in body.assigns() if pl2["l"] == idx_root and not pl2["p"] and i2 in after]
            if not [h for h in shr if h is not c and h.bb in after] and not idx_writes:
                return "loop-index: inside the Some arm of get(idx) on the same vector (bb%d), index and length unchanged since" % sbb
    # (c) index found by Iterator::position / rposition over the same vector, no removal in between
    r0 = flow.payload_source(body, c.args[1])
    if r0 and r0[0] == "call" and strip_generics(r0[1].callee) in ("core::iter::traits::iterator::Iterator::position", "core::iter::traits::iterator::Iterator::rposition"):
        pc = r0[1]
        src = flow.root(body, pc.args[0], through_calls=tuple(flow.ADAPTERS) + ("core::slice::<impl [T]>::iter", "core::slice::<impl [T]>::iter_mut", "core::iter::traits::collect::IntoIterator::into_iter"))
        same = False
        if src[0] == "rv" and "pl" in src[1]:
            same = place_identity(body, {"k": "copy", "pl": src[1]["pl"]}) == vec_id
        elif src[0] in ("arg", "multi", "local"):
            same = place_identity(body, {"k": "copy", "pl": {"l": src[1], "p": []}}) == vec_id
        after = flow.reach_avoiding(body, [pc.target] if pc.target is not None else [], [site.bb])
        between = [h for h in shr if h is not c and h.bb in after]
        if same and not between:
            return "loop-index: index returned by position() over the same vector, no removal in between"
    # (b) `for i in 0..vec.len()`: index from a Range iterator whose end is len(); removal only on paths that leave the loop
    r = flow.payload_source(body, c.args[1])
    if r and r[0] == "call" and strip_generics(r[1].callee) == "core::iter::traits::iterator::Iterator::next" and "Range<usize>" in r[1].self_ty:
        nxt = r[1]
        for l in loops_:
            if nxt.bb in l:
                lp = l
        stale = [h for h in shr if h.bb in lp and nxt.bb in flow.reach_avoiding(body, [h.target] if h.target is not None else [], [])]
        pre = [h for h in shr if h.bb in lp and h is not c and site.bb in flow.reach_avoiding(body, [h.target] if h.target is not None else [], [nxt.bb])]
        rng_ok = False
        for i, j, pl, rv, st in body.assigns():
            if rv["k"] == "agg" and rv.get("adt", "").endswith("ops::range::Range") and flow.const_of(rv["ops"][0]) == 0:
                er = flow.root(body, rv["ops"][1])
                if er[0] == "call" and er[1] in lens:
                    rng_ok = True
        if rng_ok and not stale and not pre:
            return "loop-index: index drawn from 0..len(); the only removal leaves the loop"
    return None


def rule_sub_one_guard(site, body):
    """L - 1 where some x < L dominates (unsigned => L >= 1)"""
    if site.kind != "assert" or site.what != "overflow:Sub":
        return None
    det = site.extra.get("detail", {})
    if flow.const_of(det.get("b", {})) != 1:
        return None
    al = op_local(det.get("a", {}))
    ar = flow.root_local(body, det["a"]) if al is not None else None
    # L and the guard's bound may be two reads of the same vector's len() with no removal in between
    ra = flow.root(body, det["a"]) if al is not None else ("x",)
    if ra[0] == "call" and strip_generics(ra[1].callee) in ("alloc::vec::Vec::len", "core::slice::<impl [T]>::len"):
        vid = _vec_identity(body, ra[1].args[0])
        shr = [h for h in body.calls() if strip_generics(h.callee) in SHRINKERS and _vec_identity(body, h.args[0]) == vid]
        for op, x, y, gbb in cmp_guards(body, site.bb):
            for side, opn in ((y, "Lt"), (x, "Gt")):
                if op == opn and op_local(side) is not None:
                    rs = flow.root(body, side)
                    if rs[0] == "call" and strip_generics(rs[1].callee) == strip_generics(ra[1].callee) and _vec_identity(body, rs[1].args[0]) == vid:
                        sc = flow.switch_condition(body, gbb)
                        edge = sc["true"] if sc["op"] == op else sc["false"]
                        between = flow.reach_avoiding(body, [edge], [gbb])
                        if not [h for h in shr if h.bb in between and site.bb in flow.reach_avoiding(body, [h.target] if h.target is not None else [], [gbb])]:
                            return "x < v.len() dominates v.len() - 1 with no removal in between (bb%d)" % gbb
    # L read from a place (a field of *self): the guard reads the same place, and nothing stores to it in between
    ka = _expr_key(body, det["a"]) if al is not None else ("?",)
    if ka[0] == "place":
        for op, x, y, gbb in cmp_guards(body, site.bb):
            same = None
            if op == "Ne" and flow.const_of(y) == 0 and op_local(x) is not None and _expr_key(body, x) == ka:
                same = "L != 0"
            elif op == "Ne" and flow.const_of(x) == 0 and op_local(y) is not None and _expr_key(body, y) == ka:
                same = "L != 0"
            elif op == "Lt" and op_local(y) is not None and _expr_key(body, y) == ka:
                same = "x < L"
            elif op == "Gt" and op_local(x) is not None and _expr_key(body, x) == ka:
                same = "L > x"
            if same:
                sc = flow.switch_condition(body, gbb)
                if sc and sc.get("kind") == "cmp":
                    edge = sc["true"] if sc["op"] == op else sc["false"]
                else:
                    edge = body.term(gbb)["otherwise"]          # integer switch: the `!= K` edge
                between = {b_ for b_ in flow.reach_avoiding(body, [edge], [gbb]) if site.bb in flow.reach_avoiding(body, [b_], [gbb])}
                stores = [1 for i2, j2, pl2, rv2, s2 in body.assigns() if i2 in between and i2 != site.bb and pl2["p"] and ("place", canon_place(body, pl2)) == ka]
                calls_mut = [c2 for c2 in body.calls() if c2.bb in between and c2.bb != site.bb and any("&mut" in t_ for t_ in c2.arg_tys)]
                if not stores and not calls_mut:
                    return "%s dominates L - 1 for the same place, no store in between (bb%d)" % (same, gbb)
    for op, x, y, gbb in cmp_guards(body, site.bb):
        # L != 0 (the continue edge of `if L == 0 { break }`)
        if op == "Ne" and ((flow.const_of(y) == 0 and op_local(x) is not None and flow.root_local(body, x) == ar) or
                           (flow.const_of(x) == 0 and op_local(y) is not None and flow.root_local(body, y) == ar)):
            return "L != 0 dominates L - 1 (bb%d)" % gbb
        if op == "Lt" and (flow.root_local(body, y) if op_local(y) is not None else None) == ar:
            return "x < L dominates L - 1 (bb%d)" % gbb
        if op == "Gt" and (flow.root_local(body, x) if op_local(x) is not None else None) == ar:
            return "L > x dominates L - 1 (bb%d)" % gbb
    return None


DEFAULT_RULES = [rule_loop_index, rule_sub_one_guard, d1_option_guard, d2_map_guard, d4_infallible, d5_counter, rule_buffer_bounds, rule_alloc_size, rule_const_slice, rule_copy_from_slice, rule_sub_guard, rule_div_const, rule_narrowing_cast]
