"""A small path-sensitive abstract interpreter over the extracted MIR (finite value domain).

Used (a) to extract truth tables of small boolean functions and (b) as the core of PollAI
(pollai.py), which plugs in an operation table for the router objects.

Values are hashable tuples:
  ('top',)  ('unit',)  ('bool', b)  ('int', n)  ('str', s)
  ('var', adt, variant, (fields...))     enum variant / struct value
  ('tup', (fields...))
  ('lref', local, (proj...))             reference to (a sub-place of) a local
  ('oref', (path...))                    reference to (a sub-place of) a tracked object
  anything else: handler-defined (moved around opaquely)
"""
import sys

TOP = ("top",)
UNIT = ("unit",)


def B(b):
    return ("bool", bool(b))


class State:
    """immutable mapping with cheap functional update"""
    __slots__ = ("d", "_h")

    def __init__(self, d=None):
        self.d = d or {}
        self._h = None

    def get(self, k, default=None):
        return self.d.get(k, default)

    def set(self, k, v):
        nd = dict(self.d)
        nd[k] = v
        return State(nd)

    def delete(self, k):
        if k not in self.d:
            return self
        nd = dict(self.d)
        del nd[k]
        return State(nd)

    def key(self):
        if self._h is None:
            self._h = frozenset(self.d.items())
        return self._h

    def __hash__(self):
        return hash(self.key())

    def __eq__(self, o):
        return self.key() == o.key()

    def items(self):
        return self.d.items()


class Unmodelled(Exception):
    pass


class Handler:
    """override in clients"""

    def call(self, it, st, call):
        """returns list of (retval, state, label) — label is a short outcome name or None"""
        return [(TOP, st, None)]

    def coerce(self, it, val, ty):
        return val

    def on_drop(self, it, st, val, place, bb):
        return st

    def read_obj(self, it, st, path):
        return TOP

    def write_obj(self, it, st, path, val):
        return st

    def on_return(self, it, st, val, bb):
        pass

    def on_overwrite(self, it, st, loc, old, new, bb, span):
        pass


class Interp:
    def __init__(self, body, handler, max_nodes=400000):
        self.body = body
        self.h = handler
        self.max_nodes = max_nodes
        self.calls_by_bb = {c.bb: c for c in body.calls()}
        self.nodes = {}      # (bb, state) -> node id
        self.edges = {}      # node id -> list of (node id, label)
        self.returns = []    # (state, value, bb, node)
        self.events = []
        self.cur_node = None
        self._live = None

    # -- locations -----------------------------------------------------------------------
    # a location is ('L', local, proj) or ('O', path)
    def place_loc(self, st, pl):
        loc = ("L", pl["l"], ())
        for p in pl["p"]:
            if p == "*":
                v = self.read_loc(st, loc)
                if v[0] == "lref":
                    loc = ("L", v[1], v[2])
                elif v[0] == "oref":
                    loc = ("O", v[1])
                elif v[0] == "box":
                    loc = ("V", v)      # a boxed temp: value location (read-only)
                else:
                    return None
            elif isinstance(p, int):
                loc = self.extend(loc, p)
            elif isinstance(p, dict) and "v" in p:
                loc = self.extend(loc, ("as", p.get("vn", p["v"])))
            elif isinstance(p, dict) and "cidx" in p and not p.get("from_end"):
                loc = self.extend(loc, p["cidx"])
            else:
                return None
            if loc is None:
                return None
        return loc

    @staticmethod
    def extend(loc, e):
        if loc[0] == "L":
            return ("L", loc[1], loc[2] + (e,))
        if loc[0] == "O":
            return ("O", loc[1] + (e,))
        return None

    def proj_read(self, v, proj):
        for e in proj:
            if v == TOP:
                return TOP
            if isinstance(e, tuple) and e[0] == "as":
                if v[0] == "var" and v[2] != e[1]:
                    return TOP   # infeasible downcast; be permissive
                continue
            if v[0] == "tup":
                v = v[1][e] if e < len(v[1]) else TOP
            elif v[0] == "var":
                v = v[3][e] if e < len(v[3]) else TOP
            else:
                return TOP
        return v

    def proj_write(self, base, proj, val):
        if not proj:
            return val
        e = proj[0]
        if isinstance(e, tuple) and e[0] == "as":
            return self.proj_write(base, proj[1:], val)
        if base is None or base == TOP or base[0] not in ("tup", "var"):
            return TOP     # lose precision
        if base[0] == "tup":
            f = list(base[1])
            while len(f) <= e:
                f.append(TOP)
            f[e] = self.proj_write(f[e], proj[1:], val)
            return ("tup", tuple(f))
        f = list(base[3])
        while len(f) <= e:
            f.append(TOP)
        f[e] = self.proj_write(f[e], proj[1:], val)
        return ("var", base[1], base[2], tuple(f))

    def read_loc(self, st, loc):
        if loc is None:
            return TOP
        if loc[0] == "L":
            v = st.get(("l", loc[1]), TOP)
            return self.proj_read(v, loc[2])
        if loc[0] == "O":
            return self.h.read_obj(self, st, loc[1])
        return TOP

    def write_loc(self, st, loc, val, bb=None, span=None):
        if loc is None:
            return st
        if loc[0] == "L":
            if not loc[2]:
                ty = self.body.locals[loc[1]]["ty"]
                v = self.h.coerce(self, val, ty)
                if v == TOP:
                    return st.delete(("l", loc[1]))      # absent == unknown
                return st.set(("l", loc[1]), v)
            base = st.get(("l", loc[1]), TOP)
            return st.set(("l", loc[1]), self.proj_write(base, loc[2], val))
        if loc[0] == "O":
            old = self.h.read_obj(self, st, loc[1])
            self.h.on_overwrite(self, st, loc, old, val, bb, span)
            return self.h.write_obj(self, st, loc[1], val)
        return st

    # -- operands / rvalues -----------------------------------------------------------------
    def operand(self, st, op):
        k = op.get("k")
        if k == "const":
            if "bool" in op:
                return B(op["bool"]), st
            if "int" in op:
                return ("int", op["int"]), st
            if "str" in op:
                return ("str", op["str"]), st
            if "fn" in op:
                return ("fn", op["fn"]), st
            if "static" in op:
                return ("oref", ("static:" + op["static"],)), st
            if op.get("ty") == "()":
                return UNIT, st
            return TOP, st
        if k in ("copy", "move"):
            loc = self.place_loc(st, op["pl"])
            v = self.read_loc(st, loc)
            if k == "move" and loc is not None and loc[0] == "L" and not loc[2]:
                st = st.delete(("l", loc[1]))
            elif k == "move" and loc is not None and loc[0] == "O":
                st = self.h.write_obj(self, st, loc[1], ("moved",))
            elif k == "move" and loc is not None and loc[0] == "L" and loc[2]:
                # partial move out of a local aggregate
                base = st.get(("l", loc[1]), TOP)
                st = st.set(("l", loc[1]), self.proj_write(base, loc[2], ("moved",)))
            return v, st
        return TOP, st

    def rvalue(self, st, rv, bb):
        k = rv["k"]
        if k in ("use", "cast", "repeat"):
            return self.operand(st, rv["op"])
        if k in ("ref", "rawptr"):
            loc = self.place_loc(st, rv["pl"])
            if loc is None:
                return TOP, st
            if loc[0] == "L":
                return ("lref", loc[1], loc[2]), st
            if loc[0] == "O":
                return ("oref", loc[1]), st
            return TOP, st
        if k == "agg":
            vals = []
            for o in rv["ops"]:
                v, st = self.operand(st, o)
                vals.append(v)
            a = rv["agg"]
            if a == "adt":
                return ("var", rv["adt"], rv["variant"], tuple(vals)), st
            if a == "tuple" or (a == "array" and vals):
                return (("tup", tuple(vals)) if vals else UNIT), st        # (an array literal is read back by constant index)
            if a in ("closure", "coroutine", "coroutine_closure"):
                return ("closure", rv["closure"], tuple(vals)), st
            return TOP, st
        if k == "discr":
            v = self.read_loc(st, self.place_loc(st, rv["pl"]))
            if v[0] == "var":
                for d in rv.get("variants", []):
                    if d["name"] == v[2]:
                        return ("int", d["discr"]), st
            d = self.h_discr(st, v, rv)
            return d, st
        if k == "binop":
            a, st = self.operand(st, rv["a"])
            b, st = self.operand(st, rv["b"])
            op = rv["op"]
            if a[0] in ("int", "bool") and b[0] == a[0]:
                x, y = a[1], b[1]
                r = {"Eq": x == y, "Ne": x != y, "Lt": x < y, "Le": x <= y, "Gt": x > y, "Ge": x >= y}.get(op)
                if r is not None:
                    return B(r), st
                if op in ("BitAnd", "BitOr", "BitXor") and a[0] == "bool":
                    return B({"BitAnd": x and y, "BitOr": x or y, "BitXor": x != y}[op]), st
            if op.endswith("WithOverflow"):
                return ("tup", (TOP, B(False))), st
            return TOP, st
        if k == "unop":
            a, st = self.operand(st, rv["a"])
            if rv["op"] == "Not" and a[0] == "bool":
                return B(not a[1]), st
            return TOP, st
        return TOP, st

    def h_discr(self, st, v, rv):
        f = getattr(self.h, "discr", None)
        if f:
            return f(self, st, v, rv)
        return TOP

    # -- exploration ----------------------------------------------------------------------------
    def node(self, bb, st):
        st = self.prune(bb, st)
        self.last_pruned = st
        k = (bb, st)
        n = self.nodes.get(k)
        if n is None:
            n = len(self.nodes)
            self.nodes[k] = n
            self.edges[n] = []
            if n > self.max_nodes:
                raise Unmodelled("state space exceeds %d nodes in %s" % (self.max_nodes, self.body.path))
            return n, True
        return n, False

    def run(self, init):
        body = self.body
        n0, _ = self.node(0, init)
        work = [(0, init, n0)]
        while work:
            bb, st, nid = work.pop()
            self.cur_node = nid
            for (tbb, tst, label) in self.step_block(bb, st):
                if tbb is None:
                    continue
                n, new = self.node(tbb, tst)
                self.edges[nid].append((n, label))
                if new:
                    work.append((tbb, self.last_pruned, n))
        return self

    def liveness(self):
        """backward liveness of locals whose address is never taken; returns live_in per block (None = keep all)"""
        if self._live is not None:
            return self._live
        from .facts import rv_operands
        body = self.body
        nb = len(body.blocks)
        borrowed = set()
        use = [set() for _ in range(nb)]
        dfn = [set() for _ in range(nb)]

        def mention(pl, b, is_def=False):
            l = pl["l"]
            for e in pl["p"]:
                if isinstance(e, dict) and "idx" in e and e["idx"] not in dfn[b]:
                    use[b].add(e["idx"])
            if is_def and not pl["p"]:
                dfn[b].add(l)
            elif l not in dfn[b]:
                use[b].add(l)
        for b, blk in enumerate(body.blocks):
            for s_ in blk["stmts"]:
                if s_["k"] == "assign":
                    rv = s_["rv"]
                    if rv["k"] in ("ref", "rawptr"):
                        borrowed.add(rv["pl"]["l"])
                        mention(rv["pl"], b)
                    elif rv["k"] == "discr":
                        mention(rv["pl"], b)
                    for o in rv_operands(rv):
                        if o.get("k") in ("copy", "move"):
                            mention(o["pl"], b)
                    mention(s_["pl"], b, True)
                elif s_["k"] in ("fakeread", "mention"):
                    pass
            t = blk["term"]
            k = t["k"]
            if k == "switch":
                if t["discr"].get("k") in ("copy", "move"):
                    mention(t["discr"]["pl"], b)
            elif k in ("call", "tailcall"):
                for a in t.get("args", []):
                    if a.get("k") in ("copy", "move"):
                        mention(a["pl"], b)
                f = t.get("func")
                if f and f.get("k") in ("copy", "move"):
                    mention(f["pl"], b)
                if t.get("dest"):
                    mention(t["dest"], b, True)
            elif k == "drop":
                mention(t["pl"], b)
            elif k == "assert":
                if t["cond"].get("k") in ("copy", "move"):
                    mention(t["cond"]["pl"], b)
            elif k == "yield":
                if t["value"].get("k") in ("copy", "move"):
                    mention(t["value"]["pl"], b)
            elif k == "return":
                use[b].add(0)
        live_in = [set() for _ in range(nb)]
        succ = body.succ_map()
        changed = True
        while changed:
            changed = False
            for b in range(nb - 1, -1, -1):
                out = set()
                for s2 in succ[b]:
                    out |= live_in[s2]
                new = use[b] | (out - dfn[b])
                if new != live_in[b]:
                    live_in[b] = new
                    changed = True
        self._live = (live_in, borrowed)
        return self._live

    def prune(self, bb, st):
        live_in, borrowed = self.liveness()
        keep = live_in[bb]
        dead = [k for k in st.d if k[0] == "l" and k[1] not in keep and k[1] not in borrowed and k[1] > self.body.nargs]
        if not dead:
            return st
        nd = dict(st.d)
        for k in dead:
            del nd[k]
        return State(nd)

    def step_block(self, bb, st):
        body = self.body
        blk = body.blocks[bb]
        for s in blk["stmts"]:
            k = s["k"]
            if k == "assign":
                v, st = self.rvalue(st, s["rv"], bb)
                loc = self.place_loc(st, s["pl"])
                st = self.write_loc(st, loc, v, bb, s.get("span"))
            elif k == "dead":
                st = st.delete(("l", s["l"]))
            elif k == "setdiscr":
                pass
        t = blk["term"]
        k = t["k"]
        if k == "goto":
            return [(t["target"], st, None)]
        if k == "drop":
            loc = self.place_loc(st, t["pl"])
            v = self.read_loc(st, loc)
            st = self.h.on_drop(self, st, v, t["pl"], bb)
            if loc is not None and loc[0] == "L" and not loc[2]:
                st = st.delete(("l", loc[1]))
            return [(t["target"], st, None)]
        if k == "assert":
            return [(t["target"], st, None)]
        if k == "switch":
            v, st = self.operand(st, t["discr"])
            targets = t["targets"]
            if v[0] == "bool":
                x = 1 if v[1] else 0
                for val, tb in targets:
                    if val == x:
                        return [(tb, st, None)]
                return [(t["otherwise"], st, None)]
            if v[0] == "int":
                for val, tb in targets:
                    if val == v[1]:
                        return [(tb, st, None)]
                return [(t["otherwise"], st, None)]
            out = [(tb, st, None) for _, tb in targets]
            # `otherwise` of an exhaustive enum switch is unreachable: only add if it is not an `unreachable` block
            ob = t["otherwise"]
            if body.blocks[ob]["term"]["k"] != "unreachable":
                out.append((ob, st, None))
            return out
        if k == "call":
            c = self.calls_by_bb.get(bb)
            if c is None:
                return []
            outs = self.h.call(self, st, c)
            res = []
            for (val, st2, label) in outs:
                if c.target is None:
                    continue
                if c.dest is not None:
                    loc = self.place_loc(st2, c.dest)
                    st2 = self.write_loc(st2, loc, val, bb, c.span)
                res.append((c.target, st2, label))
            return res
        if k == "return":
            v = st.get(("l", 0), TOP)
            self.returns.append((st, v, bb, self.cur_node))
            self.h.on_return(self, st, v, bb)
            return []
        if k == "yield":
            return [(t["target"], st, None)]
        return []   # unreachable / resume / abort


# ---------------------------------------------------------------------------------------------
# truth tables of small boolean functions
# ---------------------------------------------------------------------------------------------

class _AtomHandler(Handler):
    def __init__(self, classify):
        self.classify = classify

    def call(self, it, st, call):
        a = self.classify(it, st, call)
        if a is None:
            # pass references through adapter-like calls so atoms can see what they are applied to
            if call.args:
                v, _ = it.operand(st, call.args[0])
                if v[0] in ("lref", "oref", "static"):
                    return [(v, st, None)]
            return [(TOP, st, None)]
        hist = st.get(("g", "atoms"), ())
        return [(B(True), st.set(("g", "atoms"), hist + ((a, True),)), None),
                (B(False), st.set(("g", "atoms"), hist + ((a, False),)), None)]


def truth_table(body, classify, init=None):
    """classify(it, st, call) -> atom name or None. Returns list of (tuple((atom,bool)...), return value)"""
    it = Interp(body, _AtomHandler(classify))
    st = State()
    for a in range(1, body.nargs + 1):
        st = st.set(("l", a), ("oref", ("arg%d" % a,)))
    if init:
        for k, v in init.items():
            st = st.set(k, v)
    it.run(st)
    rows = []
    for s, v, bb, n in it.returns:
        rows.append((s.get(("g", "atoms"), ()), v))
    return rows
