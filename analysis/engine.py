"""Check driver: context object handed to the per-property rule modules, findings,
known-findings comparison, evidence writing."""
import importlib
import json
import os
import re
import subprocess
import sys
import time
import traceback

from . import runner
from .facts import Facts, AnchorMissing

VERIF = runner.VERIF
KNOWN = os.path.join(VERIF, "known_findings.json")


class Finding:
    def __init__(self, prop, rule, key, what, site="", detail=None):
        self.prop, self.rule, self.key, self.what, self.site, self.detail = prop, rule, key, what, site, detail

    def to_json(self):
        return {"property": self.prop, "rule": self.rule, "key": self.key, "what": self.what,
                "site": self.site, "detail": self.detail}


class Ctx:
    def __init__(self, prop, tier, seed=0):
        self.prop, self.tier, self.seed = prop, tier, seed
        self._facts = {}
        self.driver = {}
        self.findings = []
        self.instances = []      # every rule instance evaluated: dict(rule, what, site, verdict)
        self.floors = []         # (rule, count, floor)
        self.functions = set()   # bodies looked at
        self.notes = []
        self.extra = {}

    # -- facts ---------------------------------------------------------------------
    def facts(self, config="quick"):
        if config not in self._facts:
            d, info = runner.facts_dir(config)
            self.driver[config] = info
            self._facts[config] = Facts(d)
            if self._facts[config].renames:
                # private items whose names differ from the pinned inventory and were mapped back onto it (analysis/canon.py)
                self.extra.setdefault("renamed_items_mapped", {})[config] = self._facts[config].renames
        return self._facts[config]

    # -- recording --------------------------------------------------------------------
    def touch(self, *bodies):
        for b in bodies:
            self.functions.add(b.path if hasattr(b, "path") else str(b))

    def ok(self, rule, what, site=""):
        self.instances.append({"rule": rule, "what": what, "site": site, "verdict": "holds"})

    def discharged(self, rule, what, site="", by=""):
        self.instances.append({"rule": rule, "what": what, "site": site, "verdict": "discharged", "by": by})

    def fail(self, rule, key, what, site="", detail=None):
        self.instances.append({"rule": rule, "what": what, "site": site, "verdict": "VIOLATED", "key": key})
        self.findings.append(Finding(self.prop, rule, key, what, site, detail))

    def check(self, cond, rule, key, what, site="", detail=None):
        if cond:
            self.ok(rule, what, site)
        else:
            self.fail(rule, key, what, site, detail)
        return cond

    def floor(self, rule, count, floor):
        """a rule that matches fewer instances than were counted by hand is vacuous: fail closed"""
        self.floors.append({"rule": rule, "count": count, "floor": floor})
        if count < floor:
            self.fail(rule + ".floor", "%s:floor" % rule,
                      "rule %s matched %d instance(s), fewer than the %d confirmed by hand (anchor moved or rule vacuous)" % (rule, count, floor))

    def note(self, s):
        self.notes.append(s)


def load_known():
    try:
        d = json.load(open(KNOWN))
    except FileNotFoundError:
        return {"known": [], "fixed": []}
    return d


def site_of(call_or_span):
    return getattr(call_or_span, "span", call_or_span)


def run_check(prop, tier="quick", replay=None):
    t0 = time.time()
    seed = int(os.environ.get("VERIF_SEED", "0") or 0)
    ctx = Ctx(prop, tier, seed)
    mod = importlib.import_module("analysis.rules." + prop.lower())
    crashed = None
    try:
        mod.run(ctx)
    except AnchorMissing as e:
        ctx.fail("anchor", "anchor-missing:" + re.sub(r"\s+", " ", str(e))[:160],
                 "anchor missing — the code the rule is tied to was not found, failing closed: %s" % e)
    except runner.DriverError as e:
        ctx.fail("driver", "driver-error", "fact extraction failed (tree does not build under the driver?): %s" % str(e)[-1500:])
    except Exception:
        crashed = traceback.format_exc()
        ctx.fail("internal", "checker-crash", "checker crashed, failing closed:\n" + crashed[-3000:])

    if tier == "thorough" and not replay and os.environ.get("VERIF_NO_SELFTEST") != "1":
        # mutation self-test of this property's rules (stored mutants + seeded defects) on a scratch copy of /repo's current tree.
        # Evidence only: it never produces a VIOLATION for the tree under test.
        try:
            r = subprocess.run([os.path.join(VERIF, "selftest", "mutate.py"), "--prop", prop, "--quiet"], capture_output=True, text=True, timeout=3000)
            res_file = os.path.join(VERIF, "selftest", "results", prop + ".json")
            res = json.load(open(res_file)) if os.path.exists(res_file) else []
            neg = [x for x in res if x["status"] in ("silent", "FALSE-ALARM")]
            pos = [x for x in res if x not in neg]
            ctx.extra["self_test"] = {"mutants": len(pos), "caught": sum(1 for x in pos if x["status"].startswith("caught")),
                                      "missed": [x["id"] for x in pos if x["status"] == "MISSED"],
                                      "skipped_or_invalid": [x["id"] for x in pos if not x["status"].startswith("caught") and x["status"] != "MISSED"],
                                      "refactorings": len(neg), "refactorings_silent": sum(1 for x in neg if x["status"] == "silent"),
                                      "false_alarms": [x["id"] for x in neg if x["status"] == "FALSE-ALARM"],
                                      "results": res}
            for x in res:
                good = x["status"].startswith("caught") or x["status"] == "silent"
                ctx.instances.append({"rule": "selftest", "what": "%s %s: %s %s" % ("refactoring" if x in neg else "mutant", x["id"], x["status"], x.get("rules", [])[:3]), "site": "", "verdict": "holds" if good else "selftest-" + x["status"]})
        except Exception as e:
            ctx.note("self-test could not run: %s" % e)
    known = load_known()
    def norm_key(k):
        # the name a local variable happens to have is not part of a finding's identity (`park@sink:local:si` == `park@sink:local:rejected`)
        return re.sub(r"local:[A-Za-z_][A-Za-z0-9_]*", "local:*", k)
    known_keys = {(k["property"], norm_key(k["key"])): k for k in known.get("known", [])}
    violations, knowns = [], []
    for f in ctx.findings:
        k = known_keys.get((f.prop, norm_key(f.key)))
        if k is not None:
            knowns.append(f)
        else:
            violations.append(f)

    if replay:
        want = json.load(open(replay)).get("key")
        hit = [f for f in ctx.findings if f.key == want]
        for f in hit:
            print(json.dumps(f.to_json(), indent=1))
        print("replay: finding %s %s" % (want, "REPRODUCED" if hit else "not present on this tree"))
        return 1 if hit else 0

    rdir = os.path.join(os.environ.get("VERIF_EVIDENCE_DIR") or os.path.join(VERIF, "evidence"), "replay")
    os.makedirs(rdir, exist_ok=True)
    for f in knowns:
        print("KNOWN-FINDING: property=%s %s [%s] %s" % (prop, f.key, f.site, f.what.splitlines()[0][:300]))
    for f in violations:
        name = re.sub(r"[^A-Za-z0-9_.-]+", "_", "%s-%s" % (prop, f.key))[:150] + ".json"
        path = os.path.join(rdir, name)
        json.dump(f.to_json(), open(path, "w"), indent=1)
        print("%s: %s: %s" % (f.site or "<repo>", f.rule, f.what))
        print("VIOLATION property=%s replay=%s" % (prop, path))

    wall = time.time() - t0
    holds = [i for i in ctx.instances if i["verdict"] in ("holds", "discharged")]
    distinct = len({(i["rule"], i["what"], i["site"]) for i in ctx.instances})
    samples = []
    seen_rules = set()
    for i in ctx.instances:
        if i["rule"] not in seen_rules:
            seen_rules.add(i["rule"])
            samples.append(i)
    explanation = getattr(mod, "EXPLANATION", "") or ""
    cov = {
        "explanation": explanation,
        "evaluations": len(ctx.instances),
        "distinct_nontrivial": distinct,
        "rule": "one evaluation = one rule instance (a call site, path, table row or abstract state obligation) "
                "decided on the MIR of /repo's current tree; distinct = distinct (rule, instance, site) triples",
        "samples": samples[:40],
        "obligations": len(ctx.instances),
        "discharged": len(holds),
        "rules": sorted(seen_rules),
        "rule_instances": ctx.instances if len(ctx.instances) <= 400 else ctx.instances[:400],
        "instance_floors": ctx.floors,
        "functions_analysed": sorted(ctx.functions),
        "build_configurations": {k: v for k, v in ctx.driver.items()},
        "units": {cfg: [{"crate": u["crate"], "bodies": u["nbodies"], "cfgs": u["cfgs"], "aux": u["aux"]} for u in f.units]
                  for cfg, f in ctx._facts.items()},
        "known_findings_reported": [f.to_json() for f in knowns],
        "violations": [f.to_json() for f in violations],
        "notes": ctx.notes,
        "exhaustive": True,
    }
    cov.update(ctx.extra)
    ev = {
        "property_id": prop,
        "tier": tier,
        "seed": seed,
        "level": "other",
        "coverage": cov,
        "assumptions": getattr(mod, "ASSUMPTIONS", []),
        "wall_s": round(wall, 3),
        "violations": len(violations),
    }
    evdir = os.environ.get("VERIF_EVIDENCE_DIR") or os.path.join(VERIF, "evidence")
    os.makedirs(evdir, exist_ok=True)
    json.dump(ev, open(os.path.join(evdir, prop + ".json"), "w"), indent=1)
    n_inst = len(ctx.instances)
    print("%s [%s]: %d rule instance(s) over %d function(s); %d hold, %d known finding(s), %d violation(s); %.1fs"
          % (prop, tier, n_inst, len(ctx.functions), len(holds), len(knowns), len(violations), wall))
    return 1 if violations else 0
