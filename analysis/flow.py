"""Def-use, provenance and small CFG queries over the extracted MIR."""
from .facts import rv_operands, rv_places, rv_locals, strip_generics, op_local

# calls whose result is "the same value / a view of" their first argument
ADAPTERS = {
    "core::pin::Pin::as_mut", "core::pin::Pin::get_mut", "core::pin::Pin::new", "core::pin::Pin::as_ref",
    "core::pin::Pin::new_unchecked", "core::pin::Pin::get_unchecked_mut", "core::pin::Pin::into_inner",
    "core::ops::deref::Deref::deref", "core::ops::deref::DerefMut::deref_mut",
    "core::option::Option::as_mut", "core::option::Option::as_ref", "core::option::Option::as_pin_mut",
    "core::option::Option::as_deref", "core::option::Option::unwrap", "core::option::Option::expect",
    "core::borrow::Borrow::borrow", "core::borrow::BorrowMut::borrow_mut",
    "core::convert::AsRef::as_ref", "core::convert::AsMut::as_mut", "core::convert::Into::into",
    "core::convert::From::from", "core::clone::Clone::clone",
    "core::result::Result::unwrap", "core::result::Result::expect", "core::result::Result::map_err",
    "core::ops::try_trait::Try::branch", "core::result::Result::ok", "core::option::Option::ok_or",
    "alloc::borrow::ToOwned::to_owned", "alloc::string::ToString::to_string",
    "core::str::<impl str>::to_owned", "alloc::str::<impl str>::to_owned",
}


def single_def(body, l):
    ds = [d for d in body.defs().get(l, []) if d[0] in ("assign", "call", "arg", "yield")]
    partial = [d for d in body.defs().get(l, []) if d[0] in ("partial", "partialcall")]
    if len(ds) == 1 and not partial:
        return ds[0]
    if len(ds) > 1 and not partial and len({d[0] for d in ds}) == 1:
        # the same definition repeated in blocks cloned by jump threading is one definition
        def key(d):
            if d[0] == "assign":
                return _strip_span(d[3])
            if d[0] == "call":
                return (d[2].callee, _strip_span(d[2].args))
            return id(d)
        if len({repr(key(d)) for d in ds}) == 1 and ds[0][0] in ("assign", "call"):
            return ds[0]
    return None


def _strip_span(x):
    if isinstance(x, dict):
        return {k: _strip_span(v) for k, v in sorted(x.items()) if k not in ("span", "macros")}
    if isinstance(x, list):
        return [_strip_span(v) for v in x]
    return x


def _aggregate_of(body, l, depth=0):
    """the aggregate rvalue a local holds, looking through whole-local copies and (for `?`) through Try::branch of a literal Ok/Some"""
    for _ in range(32):
        d = single_def(body, l)
        if d is None or d[0] != "assign":
            return None
        rv = d[3]
        if rv["k"] == "agg":
            return rv
        if rv["k"] == "use" and rv["op"].get("k") in ("copy", "move"):
            pl = rv["op"]["pl"]
            if not pl["p"]:
                l = pl["l"]
                continue
            inner = _project(body, pl, depth + 1)
            if inner is not None and inner.get("k") in ("copy", "move") and not inner["pl"]["p"]:
                l = inner["pl"]["l"]
                continue
        return None
    return None


def _success_aggregate(body, l):
    """the `Ok(..)` / `Some(..)` literal a Result / Option local holds on its success path: definitions that build the failure variant
    (Err / None literals, `?`'s from_residual) are irrelevant to the Continue payload of a following `?`"""
    for _ in range(32):
        ds = [d for d in body.defs().get(l, []) if d[0] in ("assign", "call")]
        if [d for d in body.defs().get(l, []) if d[0] in ("partial", "partialcall", "arg", "yield")]:
            return None
        ok = []
        for d in ds:
            if d[0] == "call":
                if strip_generics(d[2].callee) == "core::ops::try_trait::FromResidual::from_residual":
                    continue
                return None
            rv = d[3]
            if rv["k"] == "agg" and rv.get("variant") in ("Err", "None"):
                continue
            ok.append(rv)
        if not ok or len({repr(_strip_span(r)) for r in ok}) != 1:
            return None
        rv = ok[0]
        if rv["k"] == "agg" and rv.get("variant") in ("Ok", "Some"):
            return rv
        if rv["k"] == "use" and rv["op"].get("k") in ("copy", "move") and not rv["op"]["pl"]["p"]:
            l = rv["op"]["pl"]["l"]
            continue
        return None
    return None


def _project(body, pl, depth=0):
    """the operand stored at place `pl` = local.<field> or local.<variant>.<field>, when the local's value is a visible aggregate
    (struct / tuple / newtype literal, a literal enum variant, or the Continue payload of `?` applied to a literal Ok / Some)"""
    if depth > 6:
        return None
    p = [e for e in pl["p"] if e != "*"]
    if len(p) == 1 and isinstance(p[0], int):
        agg = _aggregate_of(body, pl["l"], depth)
        if agg is not None and agg.get("agg") in ("adt", "tuple") and p[0] < len(agg["ops"]) and (agg.get("agg") == "tuple" or agg.get("variant") in (None, agg.get("adt", "").rsplit("::", 1)[-1]) or True):
            return agg["ops"][p[0]]
        return None
    if len(p) == 2 and isinstance(p[0], dict) and "vn" in p[0] and isinstance(p[1], int):
        vn = p[0]["vn"]
        d = single_def(body, pl["l"])
        if d is None:
            return None
        if d[0] == "call" and strip_generics(d[2].callee) == "core::ops::try_trait::Try::branch" and vn == "Continue" and d[2].args and d[2].args[0].get("k") in ("copy", "move") \
                and not d[2].args[0]["pl"]["p"]:
            agg = _success_aggregate(body, d[2].args[0]["pl"]["l"])
            if agg is not None and p[1] < len(agg["ops"]):
                return agg["ops"][p[1]]
            return None
        agg = _aggregate_of(body, pl["l"], depth)
        if agg is None:
            agg = _variant_aggregate(body, pl["l"], vn)
        if agg is not None and agg.get("variant") == vn and p[1] < len(agg["ops"]):
            return agg["ops"][p[1]]
    return None


def _variant_aggregate(body, l, vn):
    """the literal `Enum::vn(..)` a local holds on the paths where it is that variant: literals of the other variants are irrelevant to a
    read of `(local as vn).field`"""
    for _ in range(32):
        ds = body.defs().get(l, [])
        if [d for d in ds if d[0] not in ("assign",)]:
            return None
        mine = []
        for d in ds:
            rv = d[3]
            if rv["k"] == "agg" and rv.get("agg") == "adt" and rv.get("variant") != vn:
                continue
            mine.append(rv)
        if not mine or len({repr(_strip_span(r)) for r in mine}) != 1:
            return None
        rv = mine[0]
        if rv["k"] == "agg" and rv.get("variant") == vn:
            return rv
        if rv["k"] == "use" and rv["op"].get("k") in ("copy", "move") and not rv["op"]["pl"]["p"]:
            l = rv["op"]["pl"]["l"]
            continue
        return None
    return None


def root(body, op_or_local, through_calls=ADAPTERS, max_steps=64):
    """Follow single-definition copy/ref/cast/adapter chains back to a root.
    Returns ('local', id) | ('const', constop) | ('call', Call) | ('arg', id) | ('rv', rv) | ('multi', id)."""
    if isinstance(op_or_local, dict):
        op = op_or_local
        if op.get("k") == "const":
            return ("const", op)
        if op.get("k") not in ("copy", "move"):
            return ("other", op)
        l = op["pl"]["l"]
    else:
        l = op_or_local
    for _ in range(max_steps):
        if body.debug_name(l) is not None and l > body.nargs:
            # a user variable: still look through if it is a plain single copy? stop here - named
            d = single_def(body, l)
            if d is None:
                return ("multi", l)
        d = single_def(body, l)
        if d is None:
            return ("multi", l)
        if d[0] == "arg":
            return ("arg", l)
        if d[0] == "yield":
            return ("yield", l)
        if d[0] == "call":
            c = d[2]
            if through_calls and strip_generics(c.callee) in through_calls and c.args:
                a = c.args[0]
                if a.get("k") in ("copy", "move"):
                    l = a["pl"]["l"]
                    continue
                if a.get("k") == "const":
                    return ("const", a)
            return ("call", c)
        rv = d[3]
        k = rv["k"]
        if k in ("use", "cast"):
            o = rv["op"]
            if o.get("k") == "const":
                return ("const", o)
            if o.get("k") in ("copy", "move"):
                if any(e != "*" for e in o["pl"]["p"]):
                    inner = _project(body, o["pl"])       # ..unless the base is a visible aggregate (newtype wrapper, literal Ok through `?`)
                    if inner is not None and inner.get("k") == "const":
                        return ("const", inner)
                    if inner is not None and inner.get("k") in ("copy", "move") and not any(e != "*" for e in inner["pl"]["p"]):
                        l = inner["pl"]["l"]
                        continue
                    return ("rv", rv, d[1], d[2], l)      # a field / variant payload is not its base
                l = o["pl"]["l"]
                continue
            return ("rv", rv)
        if k in ("ref", "rawptr"):
            if any(e != "*" for e in rv["pl"]["p"]):
                return ("rv", rv, d[1], d[2], l)
            l = rv["pl"]["l"]
            continue
        return ("rv", rv, d[1], d[2], l)
    return ("multi", l)


def root_local(body, op_or_local, **kw):
    """like root() but returns the last local reached (for 'is this value derived from variable X')"""
    r = root(body, op_or_local, **kw)
    if r[0] in ("local", "multi", "arg", "yield"):
        return r[1]
    if r[0] == "rv" and len(r) > 4:
        return r[4]
    if r[0] == "call" and r[1].dest is not None:
        return r[1].dest["l"]
    return None


def derived(body, seeds, calls="all", fields=True, stop_calls=()):
    """Forward, flow-insensitive closure: locals whose value may derive from `seeds` (set of local ids).
    calls: 'all' (any call's dest derives from any tainted arg), 'adapters', or a set of def-paths."""
    t = set(seeds)
    changed = True
    assigns = [(pl, rv) for _, _, pl, rv, _ in body.assigns()]
    callz = body.calls()
    while changed:
        changed = False
        for pl, rv in assigns:
            if pl["l"] in t:
                continue
            if "*" in pl["p"] and not body.local_ty(pl["l"]).startswith("alloc::boxed::Box<"):
                continue        # a store through a reference does not make the reference itself derived (a Box owns its storage)
            if rv_locals(rv) & t:
                t.add(pl["l"])
                changed = True
        for c in callz:
            if c.dest is None or c.dest["l"] in t:
                continue
            name = strip_generics(c.callee)
            if name in stop_calls:
                continue
            ok = calls == "all" or (calls == "adapters" and name in ADAPTERS) or (isinstance(calls, (set, frozenset, list, tuple)) and (name in calls or name in ADAPTERS))
            if not ok:
                continue
            if any(op_local(a) in t for a in c.args):
                t.add(c.dest["l"])
                changed = True
        # yield: resume_arg does not derive
    return t


def users(body, tainted):
    """calls that receive a tainted local as argument"""
    return [c for c in body.calls() if any(op_local(a) in tainted for a in c.args)]


# -- comparisons ------------------------------------------------------------------------

_FLIP = {"Lt": "Gt", "Gt": "Lt", "Le": "Ge", "Ge": "Le", "Eq": "Eq", "Ne": "Ne"}
_NEG = {"Lt": "Ge", "Gt": "Le", "Le": "Gt", "Ge": "Lt", "Eq": "Ne", "Ne": "Eq"}


def switch_condition(body, bb):
    """For a SWITCH on a bool computed by a comparison: returns dict(op,a,b,true_target,false_target)
    where (a op b) holds on true_target. None if not of that form."""
    t = body.term(bb)
    if t["k"] != "switch" or t.get("discr_ty") != "bool":
        return None
    d = t["discr"]
    if d.get("k") not in ("copy", "move"):
        return None
    # bool switch: targets [[0, F]] otherwise T
    false_t = None
    for v, x in t["targets"]:
        if v == 0:
            false_t = x
    true_t = t["otherwise"]
    if false_t is None:
        return None
    neg = False
    l = d["pl"]["l"]
    for _ in range(8):
        sd = single_def(body, l)
        if sd is None:
            return {"kind": "opaque", "local": l, "true": true_t, "false": false_t, "neg": neg}
        if sd[0] == "call":
            return {"kind": "call", "call": sd[2], "true": true_t, "false": false_t, "neg": neg}
        if sd[0] != "assign":
            return None
        rv = sd[3]
        if rv["k"] == "unop" and rv["op"] == "Not":
            neg = not neg
            l = op_local(rv["a"])
            if l is None:
                return None
            continue
        if rv["k"] == "use" and rv["op"].get("k") in ("copy", "move"):
            l = rv["op"]["pl"]["l"]
            continue
        if rv["k"] == "binop" and rv["op"] in _FLIP:
            op = rv["op"]
            if neg:
                op = _NEG[op]
            return {"kind": "cmp", "op": op, "a": rv["a"], "b": rv["b"], "true": true_t, "false": false_t, "a_ty": rv.get("a_ty")}
        return {"kind": "opaque", "local": l, "true": true_t, "false": false_t, "neg": neg}
    return None


def normalize_cmp(op, a_is_lhs):
    return op if a_is_lhs else _FLIP[op]


# -- path queries -------------------------------------------------------------------------

def reach_avoiding(body, start_blocks, avoid_blocks):
    """set of blocks reachable from start_blocks (inclusive) without entering avoid_blocks"""
    avoid = set(avoid_blocks)
    seen = set()
    st = [b for b in start_blocks if b not in avoid]
    succ = body.succ_map()
    while st:
        b = st.pop()
        if b in seen:
            continue
        seen.add(b)
        for s in succ[b]:
            if s not in avoid and s not in seen:
                st.append(s)
    return seen


def must_pass(body, from_block, to_blocks, via_blocks, from_is_after=True):
    """True iff every path from `from_block` (its successors if from_is_after) to any of to_blocks
    goes through one of via_blocks."""
    starts = body.succ_map()[from_block] if from_is_after else [from_block]
    r = reach_avoiding(body, starts, via_blocks)
    return not (r & set(to_blocks))


def edge_reaches(body, edge_target, goal_blocks, avoid=()):
    return bool(reach_avoiding(body, [edge_target], avoid) & set(goal_blocks))


def blocks_between(body, a, b):
    """blocks on some path a ->* b (forward from a ∩ backward from b)"""
    fwd = reach_avoiding(body, [a], ())
    pred = body.pred_map()
    back = set()
    st = [b]
    while st:
        x = st.pop()
        if x in back:
            continue
        back.add(x)
        st.extend(pred[x])
    return fwd & back


def sccs(succ, nodes):
    """Tarjan; returns list of SCCs (lists)"""
    index = {}
    low = {}
    onst = set()
    st = []
    out = []
    counter = [0]
    import sys
    sys.setrecursionlimit(10000)

    def visit(v):
        index[v] = low[v] = counter[0]
        counter[0] += 1
        st.append(v)
        onst.add(v)
        for w in succ(v):
            if w not in index:
                visit(w)
                low[v] = min(low[v], low[w])
            elif w in onst:
                low[v] = min(low[v], index[w])
        if low[v] == index[v]:
            comp = []
            while True:
                w = st.pop()
                onst.discard(w)
                comp.append(w)
                if w == v:
                    break
            out.append(comp)

    for n in nodes:
        if n not in index:
            visit(n)
    return out


def loops(body):
    """non-trivial SCCs of the non-cleanup CFG"""
    succ = body.succ_map()
    nodes = [i for i in body.reachable(0)]
    comps = sccs(lambda v: succ[v], nodes)
    out = []
    for c in comps:
        if len(c) > 1 or (c[0] in succ[c[0]]):
            out.append(set(c))
    return out


def const_of(op):
    """evaluated scalar/str of a constant operand"""
    if op and op.get("k") == "const":
        for k in ("int", "str", "bool", "float"):
            if k in op:
                return op[k]
    return None


def switch_on_variant(body, bb):
    """For SWITCH on discr(place): returns (place, adt, {variant_name: target}, otherwise) or None"""
    t = body.term(bb)
    if t["k"] != "switch":
        return None
    d = t["discr"]
    if d.get("k") not in ("copy", "move"):
        return None
    sd = single_def(body, d["pl"]["l"])
    if not sd or sd[0] != "assign" or sd[3]["k"] != "discr":
        return None
    rv = sd[3]
    names = {v["discr"]: v["name"] for v in rv.get("variants", [])}
    m = {}
    for v, x in t["targets"]:
        m[names.get(v, str(v))] = x
    # `let Some(x) = e else { .. }` / `if let`: the only variant without a target of its own takes the `otherwise` edge
    missing = [n for n in names.values() if n not in m]
    if len(missing) == 1 and body.term(t["otherwise"])["k"] != "unreachable":
        m[missing[0]] = t["otherwise"]
    return rv["pl"], rv.get("adt"), m, t["otherwise"], [v["name"] for v in rv.get("variants", [])], rv.get("ty", "")


# -- await points -----------------------------------------------------------------------------

class Await:
    """one `.await`: the IntoFuture::into_future call, the Future::poll call in the desugared loop,
    the yield block, and the call that produced the awaited future (if any)"""

    def __init__(self, body, into, poll, yield_bb, source):
        self.body, self.into, self.poll, self.yield_bb, self.source = body, into, poll, yield_bb, source

    @property
    def span(self):
        return (self.source or self.into).span

    @property
    def fut_ty(self):
        return self.into.arg_tys[0] if self.into.arg_tys else ""

    def source_name(self):
        return strip_generics(self.source.callee) if self.source is not None else "<" + self.fut_ty + ">"

    def ready_block(self):
        """block where execution continues once the awaited future is Ready"""
        v = switch_after_call(self.body, self.poll)
        if v:
            return v.get("Ready")
        return None


def switch_after_call(body, call, want_bb=False):
    bb = call.target
    for _ in range(4):
        if bb is None:
            return None
        t = body.term(bb)
        if t["k"] == "switch":
            v = switch_on_variant(body, bb)
            if v:
                return (v[2], bb) if want_bb else v[2]
            return None
        if t["k"] in ("goto", "drop"):
            bb = t["target"]
        else:
            return None
    return None


def awaits(body):
    out = []
    polls = [c for c in body.calls() if strip_generics(c.callee) == "core::future::future::Future::poll" and "desugar:Await" in " ".join(c.macros + [""]) or
             (strip_generics(c.callee) == "core::future::future::Future::poll" and any("Await" in m for m in c.macros))]
    intos = [c for c in body.calls() if strip_generics(c.callee) == "core::future::into_future::IntoFuture::into_future"]
    for i in intos:
        if i.dest is None:
            continue
        d = derived(body, {i.dest["l"]}, calls="adapters")
        ps = [p for p in body.calls() if strip_generics(p.callee) == "core::future::future::Future::poll" and p.args and op_local(p.args[0]) in d]
        if not ps:
            continue
        p = ps[0]
        # yield block: first yield reachable from the poll's Pending edge
        m = switch_after_call(body, p) or {}
        ybb = None
        pend = m.get("Pending")
        if pend is not None:
            seen = set()
            st = [pend]
            while st:
                b = st.pop()
                if b in seen:
                    continue
                seen.add(b)
                if body.term(b)["k"] == "yield":
                    ybb = b
                    break
                if b == p.bb:
                    continue
                st.extend(body.succ_map()[b])
        r = root(body, i.args[0], through_calls=())
        src = r[1] if r[0] == "call" else None
        out.append(Await(body, i, p, ybb, src))
    return out


def payload_source(body, op_or_local, variants=("Some", "Ok", "Continue", "Ready")):
    """If the value is `X as V.0` for V in variants, returns root(X) (e.g. the call that produced the Option)"""
    r = root(body, op_or_local)
    p = None
    if r[0] == "rv" and r[1]["k"] == "use" and r[1]["op"].get("k") in ("copy", "move"):
        p = r[1]["op"]["pl"]
    elif r[0] == "rv" and r[1]["k"] == "ref":
        p = r[1]["pl"]            # `&(x as Ok).0` — match-guard bindings read the payload through a reference
    if p is not None:
        names = [e.get("vn") for e in p["p"] if isinstance(e, dict) and "v" in e]
        if names and all(n in variants for n in names):
            return root(body, p["l"])
    return None


def infeasible_continue_blocks(body):
    """`Err(e)?` / `return Err(e)?`: Try::branch on a literal Err can only take the Break edge; returns the
    Continue-target blocks of such switches (when they have no other predecessor)."""
    out = set()
    for c in body.calls():
        if strip_generics(c.callee) != "core::ops::try_trait::Try::branch" or not c.args:
            continue
        r = root(body, c.args[0], through_calls=())
        if r[0] == "rv" and r[1]["k"] == "agg" and r[1].get("adt") == "core::result::Result" and r[1]["variant"] == "Err":
            m = switch_after_call(body, c)
            if m and "Continue" in m:
                t = m["Continue"]
                if len(body.pred_map()[t]) <= 1:
                    out.add(t)
    return out


# -- maybe-initialised dataflow for one local (e.g. a lock guard) ------------------------------------

def _moves_local(op, l):
    return op.get("k") == "move" and op["pl"]["l"] == l and not op["pl"]["p"]


def maybe_init_blocks(body, l):
    """returns (init_in, init_at_term): sets of blocks where local `l` may be initialised at block entry /
    at the terminator. Transfer: assignment or call-destination to `l` initialises; `move l` or Drop(l) de-initialises."""
    nb = len(body.blocks)
    init_in = [False] * nb
    at_term = [False] * nb

    def transfer(bb, st):
        blk = body.blocks[bb]
        for s in blk["stmts"]:
            if s["k"] == "assign":
                for o in rv_operands(s["rv"]):
                    if _moves_local(o, l):
                        st = False
                if s["pl"]["l"] == l and not s["pl"]["p"]:
                    st = True
            elif s["k"] == "dead" and s["l"] == l:
                st = False
        t = blk["term"]
        mid = st
        outs = {}
        k = t["k"]
        if k == "call":
            for a in t.get("args", []):
                if _moves_local(a, l):
                    st = False
            mid = st     # state while the call executes: already moved if passed by value
            if t.get("dest") and t["dest"]["l"] == l and not t["dest"]["p"]:
                st = True
        elif k == "drop":
            if t["pl"]["l"] == l and not t["pl"]["p"]:
                st = False
        elif k == "yield":
            mid = st
        return mid, st

    succ = body.succ_map()
    work = [0]
    seen_state = {}
    init_in[0] = False
    visited = set()
    while work:
        b = work.pop()
        visited.add(b)
        mid, out = transfer(b, init_in[b])
        at_term[b] = at_term[b] or mid
        for s in succ[b]:
            new = init_in[s] or out
            if s not in visited or new != init_in[s]:
                init_in[s] = new
                work.append(s)
    return init_in, at_term


def sccs_iter(succ):
    """iterative Tarjan over a dict node -> list of successors (large graphs)"""
    index, low, onst, st, out = {}, {}, set(), [], []
    counter = 0
    for root_ in succ:
        if root_ in index:
            continue
        work = [(root_, iter(succ.get(root_, ())))]
        index[root_] = low[root_] = counter
        counter += 1
        st.append(root_)
        onst.add(root_)
        while work:
            v, itr = work[-1]
            advanced = False
            for w in itr:
                if w not in index:
                    index[w] = low[w] = counter
                    counter += 1
                    st.append(w)
                    onst.add(w)
                    work.append((w, iter(succ.get(w, ()))))
                    advanced = True
                    break
                elif w in onst:
                    low[v] = min(low[v], index[w])
            if advanced:
                continue
            work.pop()
            if work:
                u = work[-1][0]
                low[u] = min(low[u], low[v])
            if low[v] == index[v]:
                comp = []
                while True:
                    w = st.pop()
                    onst.discard(w)
                    comp.append(w)
                    if w == v:
                        break
                out.append(comp)
    return out
