"""E6 — analyses of regex literals (parsed with the stdlib regex *parser* only; nothing is matched)."""
import re._parser as rp
from re._constants import AT, AT_BEGINNING, AT_END, LITERAL, SUBPATTERN, MAX_REPEAT, IN, CATEGORY, RANGE, NEGATE
from re._constants import CATEGORY_WORD, CATEGORY_DIGIT

from . import flow
from .facts import strip_generics

ALLOWED = set("abcdefghijklmnopqrstuvwxyzABCDEFGHIJKLMNOPQRSTUVWXYZ0123456789_-")


class RegexLit:
    def __init__(self, static_path, literal, flags, span):
        self.path, self.literal, self.flags, self.span = static_path, literal, flags, span
        self.tree = list(rp.parse(literal))

    def anchored(self):
        t = self.tree
        return len(t) >= 2 and t[0] == (AT, AT_BEGINNING) and t[-1] == (AT, AT_END)

    def inner(self):
        return self.tree[1:-1] if self.anchored() else self.tree

    def unicode_word(self):
        """True if \\w / \\d would be Unicode-aware: Rust regex default unless .unicode(false) or (?-u)"""
        if self.flags.get("unicode") is False:
            return False
        return True


def class_of(node):
    """(MAX_REPEAT,(lo,hi,[(IN,items)])) -> (lo, hi, items) or None"""
    if node[0] != MAX_REPEAT:
        return None
    lo, hi, sub = node[1]
    sub = list(sub)
    if len(sub) != 1 or sub[0][0] != IN:
        return None
    return lo, int(hi), list(sub[0][1])


def class_members(items, unicode_word):
    """returns (ascii_members:set, extra:list of descriptions of non-ASCII / unbounded members)"""
    mem, extra = set(), []
    for k, v in items:
        if k == LITERAL:
            (mem.add(chr(v)) if v < 128 else extra.append("U+%04X" % v))
        elif k == RANGE:
            a, b = v
            for c in range(a, min(b, 127) + 1):
                mem.add(chr(c))
            if b > 127:
                extra.append("range to U+%04X" % b)
        elif k == CATEGORY and v == CATEGORY_WORD:
            mem |= set("abcdefghijklmnopqrstuvwxyzABCDEFGHIJKLMNOPQRSTUVWXYZ0123456789_")
            if unicode_word:
                extra.append("Unicode \\w (\\p{Alphabetic}, \\p{M}, \\p{Nd}, \\p{Pc}, Join_Control — e.g. U+203F)")
        elif k == CATEGORY and v == CATEGORY_DIGIT:
            mem |= set("0123456789")
            if unicode_word:
                extra.append("Unicode \\d")
        elif k == NEGATE:
            extra.append("negated class")
        else:
            extra.append("unsupported class item %s" % (k,))
    return mem, extra


def regex_statics(F, crate_prefix):
    """finds lazy_regex!/Regex::new statics: closure bodies that call RegexBuilder::new / Regex::new on a literal"""
    out = {}
    for p, b in F.bodies.items():
        if not p.startswith(crate_prefix):
            continue
        for c in b.calls():
            n = strip_generics(c.callee)
            if n in ("regex::builders::string::RegexBuilder::new", "regex::regex::string::Regex::new"):
                lit = flow.const_of(c.args[0]) if c.args else None
                if lit is None:
                    r = flow.root(b, c.args[0])
                    lit = flow.const_of(r[1]) if r[0] == "const" else None
                flags = {}
                for c2 in b.calls():
                    n2 = strip_generics(c2.callee)
                    if n2.startswith("regex::builders::string::RegexBuilder::") and len(c2.args) == 2:
                        v = flow.const_of(c2.args[1])
                        flags[n2.rsplit("::", 1)[-1]] = v
                owner = p.split("::{closure")[0]
                out[owner] = RegexLit(owner, lit, flags, c.span) if lit is not None else None
    return out
