"""E3 — PollAI: path-sensitive typestate analysis of the two router `poll` functions (DESIGN.md §1 E3).

The transition system is the MIR itself (re-extracted on every run); this module supplies the operation table for the
tracked objects and the K-checks. Exploration is exhaustive over the finite abstract domain: every reachable persistent
state of the router is the entry state of one interpreted invocation, in which every tracked operation forks into all of
its abstract outcomes.
"""
import re

from . import absint, flow, panics
from .absint import TOP, UNIT, B, State, Handler, Interp, Unmodelled
from .facts import strip_generics, op_local

OPT = "core::option::Option"
RES = "core::result::Result"
POLL = "core::task::poll::Poll"


def some(v):
    return ("var", OPT, "Some", (v,))


NONE = ("var", OPT, "None", ())


def ok(v=UNIT):
    return ("var", RES, "Ok", (v,))


def err():
    return ("var", RES, "Err", (TOP,))


def ready(v):
    return ("var", POLL, "Ready", (v,))


PENDING = ("var", POLL, "Pending", ())

# value constructors for peers
def sink1(dirty=False, rdy=False, last="n", closed=False, broken=False):
    if broken:
        return ("sink1", False, False, "n", False, True)      # a failed peer: nothing else matters any more
    if closed:
        return ("sink1", False, False, "n", True, False)
    return ("sink1", dirty, rdy, last, closed, broken)


def stream1(reg="n"):
    return ("stream1", reg)


ADAPTERS_PEEL = {"core::pin::Pin::as_mut", "core::pin::Pin::get_mut", "core::pin::Pin::as_ref", "core::ops::deref::Deref::deref",
                 "core::ops::deref::DerefMut::deref_mut", "core::borrow::Borrow::borrow", "core::borrow::BorrowMut::borrow_mut",
                 "core::pin::Pin::into_ref", "core::pin::Pin::get_ref", "core::convert::AsMut::as_mut", "core::convert::AsRef::as_ref",
                 "core::pin::Pin::get_unchecked_mut", "core::pin::Pin::into_inner"}
ADAPTERS_KEEP = {"core::pin::Pin::new", "core::pin::Pin::new_unchecked"}
SINK_OPS = {"poll_ready": "ready", "poll_ready_unpin": "ready", "start_send": "send", "start_send_unpin": "send",
            "poll_flush": "flush", "poll_flush_unpin": "flush", "poll_close": "close", "poll_close_unpin": "close"}
SINK_CALLEES = ("futures_sink::Sink::", "futures_util::sink::SinkExt::")
STREAM_CALLEES = ("futures_core::stream::Stream::poll_next", "futures_util::stream::stream::StreamExt::poll_next_unpin")
PURE_PREFIX = ("log::", "core::fmt::", "alloc::fmt::", "core::hint::", "std::collections::hash::map::HashMap", "alloc::string::", "core::convert::",
               "core::cmp::", "core::panicking::", "core::iter::", "core::slice::", "core::clone::", "alloc::boxed::", "core::mem::", "core::str::",
               "alloc::vec::", "selium_protocol::", "core::any::", "core::ptr::", "core::num::", "core::ops::", "alloc::alloc::", "core::default::")


class Finding:
    def __init__(self, kind, key, what, span, witness):
        self.kind, self.key, self.what, self.span, self.witness = kind, key, what, span, witness


class Config:
    """per-router slots filled in by the rule modules"""

    def __init__(self, body, proj_adt, consumer_sinks, data_slots, final_empty=(), overwrite_ok=None, sink_may_err=None, send_requires_empty=None, rebind_slot=None):
        self.body = body
        self.proj_adt = proj_adt                  # facts ADT of the pin-projection struct
        self.consumer_sinks = consumer_sinks      # object paths whose Pending is back-pressure (exempt parks)
        self.data_slots = data_slots              # slot name -> enabling predicate(objs) -> bool  (work pending if Some and enabled)
        self.final_empty = final_empty            # slots that must be None when the router finishes
        self.overwrite_ok = overwrite_ok or (lambda slot, objs: False)
        self.sink_may_err = sink_may_err or {}    # sinkset name -> {op: bool}
        self.send_requires_empty = send_requires_empty or {}   # sink path name -> slot that must be None when start_send runs (single-slot FIFO)
        self.rebind_slot = rebind_slot            # slot that must become None once its peer stream has ended


def classify_field(ty):
    t = ty
    if "tokio_stream::stream_map::StreamMap<" in t and t.startswith("core::pin::Pin<&"):
        return "sset"
    if ("::FanoutMany<" in t or "::Router<" in t) and t.startswith("core::pin::Pin<&"):
        return "sinkset"
    if "futures_channel::mpsc::Receiver<" in t:
        return "chan"
    if "core::option::Option<" in t:
        return "slot"
    if t.endswith("mut usize"):
        return "counter"
    return "other"


def coerce_by_type(val, ty):
    """materialise peers from their declared type when the value is unknown"""
    if val != TOP and not (isinstance(val, tuple) and val[0] == "moved"):
        return val
    t = ty
    if t.startswith("core::pin::Pin<alloc::boxed::Box<dyn futures_sink::Sink<"):
        return sink1()
    if t.startswith("core::pin::Pin<alloc::boxed::Box<dyn futures_core::stream::Stream<"):
        return stream1()
    if t.startswith("(core::pin::Pin<alloc::boxed::Box<dyn futures_sink::Sink<") and "dyn futures_core::stream::Stream<" in t:
        return ("tup", (sink1(), stream1()))
    return val


class PollHandler(Handler):
    def __init__(self, cfg, F, shutdown=False):
        self.cfg = cfg
        self.F = F
        self.shutdown = shutdown
        self.findings = {}
        self.events = []
        self.kinds = {}          # object name -> kind
        self.fields = []
        for f in cfg.proj_adt["variants"][0]["fields"]:
            self.fields.append(f["name"])
            self.kinds[f["name"]] = classify_field(f["ty"])
        self.ordinals = {}
        self._site_ord = {}
        self.routing = set()     # K9 facts
        self.ops_seen = {}
        self.unmodelled = []

    # -- site descriptors (line-free) ----------------------------------------------------------------
    def site_key(self, call, body):
        name = strip_generics(call.callee).rsplit("::", 1)[-1]
        k = (body.path, name)
        if k not in self._site_ord:
            cs = sorted([c for c in body.calls() if strip_generics(c.callee).rsplit("::", 1)[-1] == name], key=lambda c: panics._span_key(c.span) + (c.bb,))
            self._site_ord[k] = {c.bb: i for i, c in enumerate(cs)}
        return "%s#%d" % (name, self._site_ord[k].get(call.bb, 0))

    def report(self, it, kind, key, what, span):
        k = "%s:%s" % (kind, key)
        if k not in self.findings:
            self.findings[k] = Finding(kind, k, what, span, self.witness(it))

    def witness(self, it):
        # labelled edges from the invocation entry to the current node
        path = []
        n = it.cur_node
        seen = 0
        while n is not None and n in it.parent and seen < 400:
            p, lab = it.parent[n]
            if lab:
                path.append(lab)
            n = p
            seen += 1
        path.reverse()
        return {"entry_state": it.entry_desc, "outcomes": path[-40:]}

    # -- objects ----------------------------------------------------------------------------------------
    def read_obj(self, it, st, path):
        if not path:
            return TOP
        base = st.get(("o", path[0]))
        if base is None:
            return TOP
        return it.proj_read(base, path[1:])

    def write_obj(self, it, st, path, val):
        if not path:
            return st
        name = path[0]
        kind = self.kinds.get(name)
        if kind == "counter":
            return st
        if kind in ("chan", "sset", "sinkset"):
            return st          # never assigned through in the routers; ignore
        base = st.get(("o", name))
        if isinstance(val, tuple) and val and val[0] == "moved":
            # moving a value out of an object place (e.g. `move (*slot)`): leave as is (Option::take is the modelled way)
            return st
        new = it.proj_write(base, path[1:], val) if len(path) > 1 else val
        if (st.get(("g", "inflight")) == name or str(st.get(("g", "inflight")) or "").startswith("@")) and isinstance(val, tuple) and val[:3] == ("var", OPT, "Some"):
            st = st.delete(("g", "inflight"))
        return st.set(("o", name), new)

    def on_overwrite(self, it, st, loc, old, new, bb, span):
        path = loc[1]
        name = path[0]
        if self.kinds.get(name) != "slot" or len(path) != 1:
            return
        if isinstance(old, tuple) and old[:3] == ("var", OPT, "Some") and isinstance(new, tuple) and new[:3] == ("var", OPT, "Some"):
            objs = {k[1]: v for k, v in st.items() if k[0] == "o"}
            if self.cfg.overwrite_ok(name, objs):
                return
            self.report(it, "K1", "slot-overwrite:%s" % name,
                        "`%s` is overwritten while it still holds a value: the buffered %s is lost" % (name, "message" if "err" not in name else "rejected peer (dropped un-notified / un-closed)"), span)
        if not getattr(self, "_in_take", False) and name in self.cfg.data_slots and name != self.cfg.rebind_slot and "err" not in name and isinstance(old, tuple) and old[:3] == ("var", OPT, "Some") and \
                isinstance(new, tuple) and new[:3] == ("var", OPT, "None"):
            # a buffered message cleared by assignment (not taken out to be sent): it is discarded
            self.report(it, "K13", "message-dropped:%s" % name, "the message buffered in `%s` is discarded (`%s = None`) instead of being handed to a sink" % (name, name), span)
        if name == self.cfg.rebind_slot and isinstance(old, tuple) and old[:3] == ("var", OPT, "Some") and isinstance(new, tuple) and new[:3] == ("var", OPT, "None"):
            # K14: the bound peer is unbound although neither its sink has failed nor its stream has ended (e.g. because *another*
            # peer's sink failed): it silently stops being served and the next registrant takes its place
            sinks = [v for _, v in walk_peers(old) if v[0] == "sink1"]
            broken = any(v[5] for v in sinks)
            ended = st.get(("g", "ended")) == name
            if sinks and not broken and not ended:
                self.report(it, "K14", "healthy-peer-unbound:%s" % name,
                            "the peer bound in `%s` is unbound although its own sink has not failed and its stream has not ended" % name, span)
        self.routing.add(("store", name, self.token_of(new)))

    def token_of(self, v):
        if isinstance(v, tuple):
            if v[0] == "item":
                return v[1]
            if v[0] == "var" and v[3]:
                return self.token_of(v[3][0])
            if v[0] == "tup" and v[1]:
                return self.token_of(v[1][0])
        return "?"

    def coerce(self, it, val, ty):
        return coerce_by_type(val, ty)

    def on_drop(self, it, st, val, place, bb):
        def walk(v):
            if isinstance(v, tuple):
                if v and v[0] == "sink1":
                    yield v
                elif v and v[0] in ("var",):
                    for x in v[3]:
                        yield from walk(x)
                elif v and v[0] == "tup":
                    for x in v[1]:
                        yield from walk(x)
        for s in walk(val):
            _, dirty, rdy, last, closed, broken = s
            if dirty and not closed and not broken:
                self.report(it, "K10", "sink-dropped-unflushed", "a peer's sink is dropped while data handed to it is still unflushed and it was not closed", it.body.term(bb).get("span", ""))
        return st

    def store(self, it, st, loc, val):
        """internal write of a tracked operation's new object state"""
        if loc[0] == "O" and len(loc[1]) == 1:
            return st.set(("o", loc[1][0]), val)
        return it.write_loc(st, loc, val)

    # -- locations of receivers -------------------------------------------------------------------------
    def ref_loc(self, it, st, v):
        if v[0] == "lref":
            return ("L", v[1], v[2])
        if v[0] == "oref":
            return ("O", v[1])
        return None

    def resolve_receiver(self, it, st, v, depth=4):
        """follow references until the referenced value is not itself a reference; returns (loc, value)"""
        for _ in range(depth):
            loc = self.ref_loc(it, st, v)
            if loc is None:
                return None, v
            inner = it.read_loc(st, loc)
            if loc[0] == "O" and len(loc[1]) == 1 and self.kinds.get(loc[1][0]) in ("chan", "sset", "sinkset"):
                return loc, inner
            if isinstance(inner, tuple) and inner and inner[0] in ("lref", "oref"):
                v = inner
                continue
            return loc, inner
        return None, v

    # -- the operation table ----------------------------------------------------------------------------
    def call(self, it, st, call):
        n = strip_generics(call.callee)
        name = n.rsplit("::", 1)[-1]
        args = []
        st0 = st
        for a in call.args:
            v, st = it.operand(st, a)
            args.append(v)
        a0 = args[0] if args else TOP

        if name == "project" and "TopicProj" in call.t.get("dest_ty", ""):
            return [(("var", "proj", "proj", tuple(("oref", (f,)) for f in self.fields)), st, None)]

        # adapters --------------------------------------------------------------
        if n in ADAPTERS_KEEP:
            return [(a0, st, None)]
        if n in ADAPTERS_PEEL:
            loc = self.ref_loc(it, st, a0)
            if loc is not None:
                inner = it.read_loc(st, loc)
                if isinstance(inner, tuple) and inner and inner[0] in ("lref", "oref"):
                    return [(inner, st, None)]
            return [(a0, st, None)]

        # Pin::set(pin, value): an assignment through the pinned reference ------------------------
        if n == "core::pin::Pin::set" and len(args) == 2:
            loc = self.ref_loc(it, st, a0)
            if loc is not None:
                inner = it.read_loc(st, loc)
                if isinstance(inner, tuple) and inner and inner[0] in ("lref", "oref"):
                    loc = self.ref_loc(it, st, inner) or loc
                st = it.write_loc(st, loc, args[1], call.bb, call.span)
                return [(TOP, st, None)]

        # Option / Result -----------------------------------------------------------
        if n.startswith("core::option::Option::") or n.startswith("core::result::Result::"):
            return self.option_result(it, st, call, n, name, args)

        # sources -----------------------------------------------------------------------
        if n in STREAM_CALLEES:
            loc, val = self.resolve_receiver(it, st, a0)
            return self.poll_source(it, st, call, loc, val)

        # sinks ---------------------------------------------------------------------------
        if n.startswith(SINK_CALLEES) and name in SINK_OPS:
            loc, val = self.resolve_receiver(it, st, a0)
            return self.sink_op(it, st, call, SINK_OPS[name], loc, val, args)

        # collections ------------------------------------------------------------------------
        if n == "tokio_stream::stream_map::StreamMap::insert":
            loc, val = self.resolve_receiver(it, st, a0)
            if loc and loc[0] == "O" and self.kinds.get(loc[1][0]) == "sset":
                st = st.set(("o", loc[1][0]), ("sset", True, "n"))
                self.routing.add(("insert", loc[1][0], "key:" + self.keydesc(it, call, 1)))
                return [(TOP, st, "C:adopt-stream")]
        if n == "tokio_stream::stream_map::StreamMap::is_empty":
            loc, val = self.resolve_receiver(it, st, a0)
            if val[0] == "sset":
                return [(B(not val[1]), st, None)]
        if n in ("selium_server::sink::fanout_many::FanoutMany::insert", "selium_server::sink::router::Router::insert"):
            loc, val = self.resolve_receiver(it, st, a0)
            if loc and loc[0] == "O":
                self.routing.add(("insert", loc[1][0], "key:" + self.keydesc(it, call, 1)))
                return [(TOP, st, "C:adopt-sink")]
        if name in ("iter_mut", "iter", "for_each", "len", "is_empty", "shutdown_stream", "shutdown_sink", "values_mut"):
            return [(TOP, st, None)]
        if n in ("core::iter::traits::iterator::Iterator::next", "core::iter::traits::double_ended::DoubleEndedIterator::next_back"):
            # a `for` loop over a collection's iterator: each step consumes an element of a finite iterator (progress, not a spin)
            return [(TOP, st, "C:iterator-step")]

        # anything else: must not touch a tracked object mutably --------------------------------
        for i, v in enumerate(args):
            if isinstance(v, tuple) and v and v[0] == "oref" and self.kinds.get(v[1][0]) in ("chan", "sset", "sinkset", "slot") and not n.startswith(PURE_PREFIX):
                ty = call.arg_tys[i] if i < len(call.arg_tys) else ""
                if "&mut" in ty or ty.startswith("core::pin::Pin<&mut"):
                    self.unmodelled.append((n, call.span))
                    raise Unmodelled("unmodelled operation %s on tracked object %s at %s" % (n, v[1], call.span))
        return [(TOP, st, None)]

    def keydesc(self, it, call, idx):
        r = flow.root(it.body, call.args[idx])
        if r[0] in ("multi", "local", "arg") and it.body.debug_name(r[1]):
            return it.body.debug_name(r[1])
        if r[0] == "rv" and len(r) > 4 and it.body.debug_name(r[4]):
            return it.body.debug_name(r[4])
        if r[0] == "rv" and r[1]["k"] == "use":
            pl = r[1]["op"]["pl"]
            ints = [e for e in pl["p"] if isinstance(e, int)]
            if ints and "TopicProj" in it.body.local_ty(pl["l"]):
                # a field of the undestructured pin-projection (`this.next_id`)
                names = [f["name"] for f in self.cfg.proj_adt["variants"][0]["fields"]]
                if ints[0] < len(names):
                    return names[ints[0]]
            return it.body.debug_name(pl["l"]) or "_%d" % pl["l"]
        return "?"

    # .........................................................................................
    def option_result(self, it, st, call, n, name, args):
        a0 = args[0] if args else TOP
        is_ref = isinstance(a0, tuple) and a0 and a0[0] in ("lref", "oref")
        loc = self.ref_loc(it, st, a0) if is_ref else None
        v = it.read_loc(st, loc) if loc is not None else a0
        known = isinstance(v, tuple) and v and v[0] == "var" and v[1] in (OPT, RES)
        if name in ("is_some", "is_none", "is_ok", "is_err"):
            if known:
                pos = v[2] in ("Some", "Ok")
                return [(B(pos if name in ("is_some", "is_ok") else not pos), st, None)]
            return [(B(True), st, None), (B(False), st, None)]
        if name == "take" and loc is not None:
            self._in_take = True
            try:
                st = it.write_loc(st, loc, NONE)
            finally:
                self._in_take = False
            if loc[0] == "O" and len(loc[1]) == 1:
                self.routing.add(("take", loc[1][0], self.token_of(v)))
                if loc[1][0] in self.cfg.data_slots and loc[1][0] in self.cfg.send_requires_empty.values() and known and v[2] == "Some":
                    st = st.set(("g", "inflight"), loc[1][0])      # a message is now held in a local: it must be sent or put back
            return [(v if known else TOP, st, None)]
        if name in ("insert", "replace", "get_or_insert") and loc is not None and len(args) > 1:
            old = v
            if name != "get_or_insert" or not (known and v[2] == "Some"):
                newv = some(args[1])
                if loc[0] == "O":
                    self.on_overwrite(it, st, loc, old, newv, call.bb, call.span)
                st = it.write_loc(st, loc, newv)
            ref = ("oref", loc[1] + (("as", "Some"), 0)) if loc[0] == "O" else ("lref", loc[1], loc[2] + (("as", "Some"), 0))
            return [((old if name == "replace" else ref), st, None)]
        if name in ("unwrap", "expect", "unwrap_or_default"):
            if known:
                if v[2] in ("Some", "Ok"):
                    return [(v[3][0] if v[3] else UNIT, st, None)]
                self.report(it, "K2", "unwrap-reachable:%s" % self.site_key(call, it.body),
                            "`%s()` on %s is reachable: the router task panics" % (name, "None" if v[1] == OPT else "an Err (the peer's sink failed)"), call.span)
                return []
            return [(TOP, st, None)]
        if name in ("as_mut", "as_ref", "as_pin_mut", "as_deref_mut", "as_deref") and loc is not None:
            if known and v[2] == "Some":
                ref = ("oref", loc[1] + (("as", "Some"), 0)) if loc[0] == "O" else ("lref", loc[1], loc[2] + (("as", "Some"), 0))
                return [(some(ref), st, None)]
            if known:
                return [(NONE, st, None)]
            return [(TOP, st, None)]
        if name in ("err", "ok"):
            if known and v[1] == RES:
                hit = (v[2] == "Err") if name == "err" else (v[2] == "Ok")
                return [((some(v[3][0] if v[3] else UNIT) if hit else NONE), st, None)]
            return [(TOP, st, None)]
        if name in ("map_err", "map", "ok_or", "and_then", "unwrap_or", "unwrap_or_else", "or", "or_else"):
            return [(TOP, st, None)]
        return [(TOP, st, None)]

    # .........................................................................................
    def touch(self, st, path):
        """bookkeeping common to every tracked operation: forget the 'last pending' marker"""
        return st.set(("g", "lastpend"), None)

    def poll_source(self, it, st, call, loc, val):
        if loc is None or not isinstance(val, tuple):
            return [(TOP, st, None)]
        kind = val[0]
        path = loc[1] if loc[0] == "O" else ("local",)
        pname = ".".join(str(p) if not isinstance(p, tuple) else p[1] for p in path)
        st = self.touch(st, path)
        out = []
        infl = st.get(("g", "inflight"))
        if infl is not None:
            self.report(it, "K13", "message-dropped:%s" % infl, "a message taken out of `%s` was neither handed to a sink nor put back before the router moved on: it is silently lost" % infl, call.span)
            st = st.delete(("g", "inflight"))
        ended = st.get(("g", "ended"))
        if ended is not None:
            sv = st.get(("o", ended))
            if isinstance(sv, tuple) and sv[:3] == ("var", OPT, "Some"):
                if not (loc[0] == "O" and path[0] == ended):
                    self.report(it, "K12", "not-unbound-after-end:%s" % ended, "the stream of the peer bound in `%s` has ended, yet the router moves on (polls `%s`) with that peer still bound: no other peer can bind" % (ended, pname), call.span)
            st = st.delete(("g", "ended"))

        def put(newval, ret, label, pend=False):
            s2 = self.store(it, st, loc, newval)
            if pend:
                s2 = s2.set(("g", "lastpend"), ("src", pname))
            out.append((ret, s2, label))
        if kind == "chan":
            is_open = val[1]
            if is_open and not self.shutdown:
                put(("chan", True, "p"), PENDING, "N:%s.poll_next=Pending" % pname, True)
                put(("chan", True, "n"), ready(some(TOP)), "C:%s.poll_next=Some(socket)" % pname)
                put(("chan", False, "n"), ready(NONE), "N:%s.poll_next=None(closed)" % pname)
            else:
                put(("chan", False, "n"), ready(NONE), "N:%s.poll_next=None(closed)" % pname)
            return out
        if kind == "sset":
            if not val[1]:
                put(("sset", False, "n"), ready(NONE), "N:%s.poll_next=None(empty)" % pname)
                return out
            item = ("item", pname)
            put(("sset", True, "p"), PENDING, "N:%s.poll_next=Pending" % pname, True)
            put(("sset", True, "n"), ready(some(("tup", (TOP, ok(item))))), "C:%s.poll_next=Some(Ok)" % pname)
            if pname in getattr(self.cfg, "store_every_item", ()):
                # every message a publisher's stream yields is owed to the subscribers: it must be put into a slot (or sent) before
                # the router polls anything else or returns — a conditional discard loses accepted messages
                r_, s_, l_ = out[-1]
                out[-1] = (r_, s_.set(("g", "inflight"), "@" + pname), l_)
            put(("sset", True, "n"), ready(some(("tup", (TOP, err())))), "C:%s.poll_next=Some(Err)" % pname)
            put(("sset", False, "n"), ready(NONE), "N:%s.poll_next=None(all ended)" % pname)
            # a stream ends but others remain: stays non-empty, the call goes on to another stream: covered by the outcomes above
            return out
        if kind == "stream1":
            item = ("item", pname)
            slotname = path[0] if loc[0] == "O" else None
            if slotname is not None and slotname == self.cfg.rebind_slot:
                put(("stream1", "p"), PENDING, "N:%s.poll_next=Pending" % pname, True)
                put(("stream1", "n"), ready(some(ok(item))), "C:%s.poll_next=Some(Ok)" % pname)
                put(("stream1", "n"), ready(some(err())), "C:%s.poll_next=Some(Err)" % pname)
                s2 = self.store(it, st, loc, ("stream1", "n")).set(("g", "ended"), slotname)
                out.append((ready(NONE), s2, "N:%s.poll_next=None(ended)" % pname))
                return out
            put(("stream1", "p"), PENDING, "N:%s.poll_next=Pending" % pname, True)
            put(("stream1", "n"), ready(some(ok(item))), "C:%s.poll_next=Some(Ok)" % pname)
            put(("stream1", "n"), ready(some(err())), "C:%s.poll_next=Some(Err)" % pname)
            put(("stream1", "n"), ready(NONE), "N:%s.poll_next=None(ended)" % pname)
            return out
        return [(TOP, st, None)]

    def sink_op(self, it, st, call, op, loc, val, args):
        if loc is None or not isinstance(val, tuple) or val[0] not in ("sinkset", "sink1"):
            return [(TOP, st, None)]
        path = loc[1] if loc[0] == "O" else ("local:%s" % (it.body.debug_name(loc[1]) or loc[1]),)
        pname = ".".join(str(p) if not isinstance(p, tuple) else p[1] for p in path).replace(".Some", "")
        st = self.touch(st, path)
        self.ops_seen[(pname, op)] = self.ops_seen.get((pname, op), 0) + 1
        out = []
        isset = val[0] == "sinkset"
        if isset:
            _, dirty, rdy, last = val
            mk = lambda d, r, l: ("sinkset", d, r, l)
            may_err = self.cfg.sink_may_err.get(path[0], {}).get(op, False)
        else:
            _, dirty, rdy, last, closed, broken = val
            mk = lambda d, r, l, c=closed, b=broken: sink1(d, r, l, c, b)
            may_err = True

        def put(newval, ret, label, pend=False):
            s2 = self.store(it, st, loc, newval)
            if pend:
                s2 = s2.set(("g", "lastpend"), ("sink", pname))
            out.append((ret, s2, label))
        if not isset and broken:
            # a peer whose sink has failed keeps failing
            if op == "send":
                return [(err(), self.store(it, st, loc, val), "N:%s.start_send=Err(broken)" % pname)]
            return [(ready(err()), self.store(it, st, loc, val), "N:%s.poll_%s=Ready(Err)(broken)" % (pname, op))]
        if op == "send":
            if not rdy:
                self.report(it, "K3", "send-without-ready:%s:%s" % (pname, self.site_key(call, it.body)),
                            "start_send on `%s` without a preceding poll_ready that returned Ready(Ok) (Sink contract)" % pname, call.span)
            tok = self.token_of(args[1]) if len(args) > 1 else "?"
            self.routing.add(("send", pname, tok))
            st = st.delete(("g", "inflight"))
            slot = self.cfg.send_requires_empty.get(pname)
            if slot is not None:
                sv = st.get(("o", slot))
                if isinstance(sv, tuple) and sv[:3] == ("var", OPT, "Some"):
                    self.report(it, "K9", "send-while-buffered:%s:%s" % (pname, slot),
                                "a message is handed to `%s` while `%s` still holds one: the buffered message was not taken out (it will be sent again) or is bypassed (reordering)" % (pname, slot), call.span)
            put(mk(True, False, "n"), ok(), "C:%s.start_send=Ok" % pname)
            if may_err:
                if isset:
                    put(mk(dirty, False, "n"), err(), "N:%s.start_send=Err" % pname)
                else:
                    put(sink1(broken=True), err(), "N:%s.start_send=Err" % pname)
            return out
        if op == "close" and not isset and not dirty and not closed:
            self.report(it, "K11", "closed-without-notice:%s" % pname, "`%s` is closed although nothing (no error frame) was handed to it first" % pname, call.span)
        pend_label = "N:%s.poll_%s=Pending" % (pname, op)
        if not self.shutdown:
            put(mk(dirty, False if op == "ready" else rdy, "p"), PENDING, pend_label, True)
        if op == "ready":
            put(mk(dirty, True, "n"), ready(ok()), "N:%s.poll_ready=Ready(Ok)" % pname)
        elif op == "flush":
            put(mk(False, rdy, "n"), ready(ok()), "N:%s.poll_flush=Ready(Ok)" % pname)
        elif op == "close":
            if isset:
                put(mk(False, False, "n"), ready(ok()), "N:%s.poll_close=Ready(Ok)" % pname)
            else:
                put(sink1(closed=True), ready(ok()), "N:%s.poll_close=Ready(Ok)" % pname)
        if may_err and not self.shutdown:
            if isset:
                put(mk(dirty, False, "n"), ready(err()), "N:%s.poll_%s=Ready(Err)" % (pname, op))
            else:
                put(sink1(broken=True), ready(err()), "N:%s.poll_%s=Ready(Err)" % (pname, op))
        return out

    def discr(self, it, st, v, rv):
        return TOP


# ------------------------------------------------------------------------------------------------------

def reset_ghosts(v):
    if isinstance(v, tuple) and v:
        if v[0] == "chan":
            return ("chan", v[1], "n")
        if v[0] == "sset":
            return ("sset", v[1], "n")
        if v[0] == "sinkset":
            return ("sinkset", v[1], False, "n")
        if v[0] == "sink1":
            return ("sink1", v[1], False, "n", v[4], v[5])
        if v[0] == "stream1":
            return ("stream1", "n")
        if v[0] == "var":
            return ("var", v[1], v[2], tuple(reset_ghosts(x) for x in v[3]))
        if v[0] == "tup":
            return ("tup", tuple(reset_ghosts(x) for x in v[1]))
        if v[0] in ("lref", "oref", "moved", "closure", "fn"):
            return TOP
    return v


def walk_peers(v, path=()):
    """yield (path, value) for sink1/stream1 values nested in a slot value"""
    if isinstance(v, tuple) and v:
        if v[0] in ("sink1", "stream1"):
            yield path, v
        elif v[0] == "var":
            for i, x in enumerate(v[3]):
                yield from walk_peers(x, path + (v[2], i))
        elif v[0] == "tup":
            for i, x in enumerate(v[1]):
                yield from walk_peers(x, path + (i,))


def describe(objs):
    out = []
    for k in sorted(objs):
        v = objs[k]
        if not isinstance(v, tuple):
            continue
        if v[0] == "chan":
            out.append("%s=%s" % (k, "open" if v[1] else "closed"))
        elif v[0] == "sset":
            out.append("%s=%s" % (k, "non-empty" if v[1] else "empty"))
        elif v[0] == "sinkset":
            out.append("%s=%s" % (k, "dirty" if v[1] else "clean"))
        elif v[0] == "var" and v[1] == OPT:
            if v[2] == "None":
                out.append("%s=None" % k)
            else:
                peers = ["%s:%s" % ("/".join(str(x) for x in p), ("dirty" if pv[1] else "clean") + ("+closed" if pv[0] == "sink1" and pv[4] else "")) for p, pv in walk_peers(v) if pv[0] == "sink1"]
                inner = v[3][0] if v[3] else None
                extra = ""
                if isinstance(inner, tuple) and inner[0] == "tup" and inner[1] and isinstance(inner[1][0], tuple) and inner[1][0][:2] == ("var", OPT):
                    extra = "(%s)" % inner[1][0][2]
                out.append("%s=Some%s%s" % (k, extra, ("[" + ",".join(peers) + "]") if peers else ""))
    return ", ".join(out)


class Explorer:
    """Global exploration: ONE graph of (block, abstract state) nodes shared by all invocations. Every `Return Pending`
    contributes the entry node of the next invocation (ghosts reset); nothing is explored twice."""

    def __init__(self, cfg, F, initial_objs, shutdown=False, max_nodes=3000000):
        self.cfg, self.F = cfg, F
        self.initial = initial_objs
        self.shutdown = shutdown
        self.h = PollHandler(cfg, F, shutdown=shutdown)
        self.it = Interp(cfg.body, self.h, max_nodes=max_nodes)
        self.it.parent = {}
        self.it.entry_desc = ""
        self.h.witness = self.witness
        self.entries = {}         # node id -> (persistent-state description, origin return node or None)
        self.persistent = {}      # frozenset(objs) -> entry node id
        self.returns = {"Pending": 0, "Ready": 0}
        self.ret_nodes = []
        self.failed = None

    # -- witnesses across invocations ------------------------------------------------------------------
    def witness(self, it):
        out = []
        n = it.cur_node
        hops = 0
        polls = 0
        while n is not None and hops < 4000:
            hops += 1
            if n in self.entries:
                desc, origin = self.entries[n]
                out.append("== poll() entered with: %s" % desc)
                polls += 1
                if origin is None or polls >= 6:
                    break
                out.append("-- previous poll() returned Pending")
                n = origin
                continue
            if n not in it.parent:
                break
            p, lab = it.parent[n]
            if lab:
                out.append(lab[2:] if lab[1:2] == ":" else lab)
            n = p
        out.reverse()
        return {"trace": out[-60:]}

    def entry_state(self, objs):
        st = State()
        for k, v in objs.items():
            st = st.set(("o", k), v)
        st = st.set(("l", 1), ("oref", ("self",)))
        st = st.set(("g", "lastpend"), None)
        return st

    def objs_of(self, st):
        return {k[1]: v for k, v in st.items() if k[0] == "o"}

    def add_entry(self, objs, origin):
        if self.shutdown:
            objs = dict(objs)
            for name, v in objs.items():
                if isinstance(v, tuple) and v and v[0] == "chan":
                    objs[name] = ("chan", False, "n")
        k = frozenset(objs.items())
        if k in self.persistent:
            return None
        st = self.entry_state(objs)
        n, new = self.it.node(0, st)
        self.persistent[k] = n
        self.entries[n] = (describe(objs) + (" [registration channel closed, sinks accept data]" if self.shutdown else ""), origin)
        return (0, st, n) if new else None

    def explore(self, seeds=None):
        it = self.it
        work = []
        for objs in (seeds if seeds is not None else [self.initial]):
            w = self.add_entry(objs, None)
            if w:
                work.append(w)
        try:
            while work:
                bb, st, nid = work.pop()
                it.cur_node = nid
                nret = len(it.returns)
                outs = it.step_block(bb, st)
                for (tbb, tst, label) in outs:
                    if tbb is None:
                        continue
                    n, new = it.node(tbb, tst)
                    it.edges[nid].append((n, label))
                    if new:
                        it.parent[n] = (nid, label)
                        work.append((tbb, it.last_pruned, n))
                for (rst, val, rbb, rnode) in it.returns[nret:]:
                    it.cur_node = nid
                    o = self.objs_of(rst)
                    self.on_return(rst, o, val, rbb, nid)
                    if val[:3] == ("var", POLL, "Pending") or val == TOP:
                        self.returns["Pending"] += 1
                        if not self.shutdown:
                            no = {k: reset_ghosts(v) for k, v in o.items()}
                            w = self.add_entry(no, nid)
                            if w:
                                work.append(w)
                    else:
                        self.returns["Ready"] += 1
        except Unmodelled as e:
            self.failed = str(e)
            self.h.findings["unmodelled"] = Finding("unmodelled", "unmodelled-operation:" + re.sub(r" at .*", "", str(e))[:100], str(e), "", {})
        self.check_spin()
        self.check_close_starved()
        return self

    def on_return(self, st, objs, val, bb, node):
        it, h = self.it, self.h
        if self.shutdown:
            span = self.cfg.body.term(bb).get("span", "")
            if val[:3] != ("var", POLL, "Ready"):
                h.report(it, "K7", "shutdown-does-not-finish", "with the registration channel closed and every sink accepting data, poll can still return Pending: shutdown can hang on this topic", span)
            else:
                for s in self.cfg.final_empty:
                    v = objs.get(s)
                    if isinstance(v, tuple) and v[:3] == ("var", OPT, "Some"):
                        h.report(it, "K7", "finished-with-buffered:%s" % s, "the router finishes while `%s` still holds an accepted message" % s, span)
                for name, v in objs.items():
                    if isinstance(v, tuple) and v and v[0] == "sinkset" and v[1] and name in self.cfg.consumer_sinks_names():
                        h.report(it, "K7", "finished-unflushed:%s" % name, "the router finishes with unflushed data in `%s`" % name, span)
            return
        if val[:3] == ("var", POLL, "Ready"):
            # the router finishes (its registration channel is closed): whatever it had accepted must have been handed over and flushed
            span = self.cfg.body.term(bb).get("span", "")
            for s in self.cfg.final_empty:
                v = objs.get(s)
                if isinstance(v, tuple) and v[:3] == ("var", OPT, "Some"):
                    h.report(it, "K7", "finished-with-buffered:%s" % s, "the router finishes while `%s` still holds an accepted message (it is dropped)" % s, span)
            for name, v in objs.items():
                if isinstance(v, tuple) and v and v[0] == "sinkset" and v[1] and name in self.cfg.consumer_sinks_names():
                    h.report(it, "K7", "finished-unflushed:%s" % name, "the router finishes with unflushed data in `%s`" % name, span)
        self.check_return(it, h, st, objs, val, bb)

    @property
    def findings(self):
        return self.h.findings

    @property
    def states(self):
        return self.persistent

    # -- K6 ----------------------------------------------------------------------------------------------
    def check_spin(self):
        it, h = self.it, self.h
        nonc = {n: [m for m, lab in es if not (lab or "").startswith("C:")] for n, es in it.edges.items()}
        comps = flow.sccs_iter(nonc)
        inv = None
        k = 0
        for c in comps:
            if len(c) > 1 or (c and c[0] in nonc.get(c[0], [])):
                cs = set(c)
                if inv is None:
                    inv = {v: kk for kk, v in it.nodes.items()}
                labs = sorted({lab for n in c for m, lab in it.edges[n] if m in cs and lab})
                bbs = sorted({inv[n][0] for n in c})
                spans = sorted({it.body.blocks[b]["term"].get("span", "") for b in bbs if it.body.blocks[b]["term"]["k"] == "call"})
                # an example state inside the cycle
                ex_objs = self.objs_of(inv[c[0]][1])
                it.cur_node = c[0]
                key = "spin:" + "+".join(sorted({l[2:].split("=")[0] for l in labs}))[:160]
                h.report(it, "K6", key, "one poll can loop forever without consuming anything — repeating outcomes: %s (example state: %s)" % ("; ".join(l[2:] for l in labs[:10]), describe(ex_objs)), spans[0] if spans else "")
                k += 1
                if k > 12:
                    break

    # -- K15 ---------------------------------------------------------------------------------------------
    def check_close_starved(self):
        """within one poll the router may go round as long as its peers supply work; every such round must look at the registration
        channel, otherwise busy peers keep it from ever noticing that the channel was closed (shutdown waits on the publishers)"""
        it, h = self.it, self.h
        if self.shutdown:
            return
        keep = {n: [m for m, lab in es if "handle.poll_next" not in (lab or "")] for n, es in it.edges.items()}
        inv = None
        for c in flow.sccs_iter(keep):
            if len(c) > 1 or (c and c[0] in keep.get(c[0], [])):
                cs = set(c)
                labs = sorted({lab for n in c for m, lab in it.edges[n] if m in cs and lab})
                if not any(l.startswith("C:") and "iterator-step" not in l for l in labs):
                    continue            # (a cycle without progress is K6's business; a `for` over a finite collection ends by itself)
                if inv is None:
                    inv = {v: kk for kk, v in it.nodes.items()}
                bbs = sorted({inv[n][0] for n in c})
                spans = sorted({it.body.blocks[b]["term"].get("span", "") for b in bbs if it.body.blocks[b]["term"]["k"] == "call"})
                it.cur_node = c[0]
                h.report(it, "K15", "close-starved:" + "+".join(sorted({l[2:].split("=")[0] for l in labs}))[:120],
                         "the router can go round its loop for as long as peers supply work (%s) without polling the registration channel `handle`: a close is not noticed while they are busy"
                         % "; ".join(l[2:] for l in labs[:6]), spans[0] if spans else "")
                break

    # -- K4 / K5 at returns --------------------------------------------------------------------------------
    def check_return(self, it, h, st, objs, val, bb):
        infl = st.get(("g", "inflight"))
        if infl is not None:
            h.report(it, "K13", "message-dropped:%s" % infl, "a message taken out of `%s` was neither handed to a sink nor put back before poll returned: it is silently lost" % infl, self.cfg.body.term(bb).get("span", ""))
        if val[:3] != ("var", POLL, "Pending"):
            return
        lp = st.get(("g", "lastpend"))
        exempt = lp is not None and lp[0] == "sink" and lp[1] in self.cfg.consumer_sinks
        span = self.cfg.body.term(bb).get("span", "")
        park = "park@%s" % (("%s:%s" % lp) if lp else "explicit")
        if exempt:
            return
        # K7 (park after close): the registration channel has been seen closed — it will never wake the router again — yet the router
        # parks on something other than its own final flush instead of finishing
        if not self.shutdown:
            for name, v in sorted(objs.items()):
                if isinstance(v, tuple) and v and v[0] == "chan" and not v[1]:
                    h.report(it, "K7", "park-after-close:%s" % park,
                             "the registration channel `%s` is closed (shutdown) but poll returns Pending (%s) instead of finishing: a closed channel never wakes the router, so shutdown waits on an unrelated event" % (name, park), span)
        # K5: enabled sources not registered, buffered work not attempted
        missing = []
        for name, v in sorted(objs.items()):
            if not isinstance(v, tuple) or not v:
                continue
            if v[0] == "chan" and v[1] and v[2] != "p":
                missing.append("%s (registration channel %s)" % (name, "not polled since it last yielded"))
            if v[0] == "sset" and v[1] and v[2] != "p":
                missing.append("%s (%s)" % (name, "not polled since it last yielded"))
            if v[0] == "var" and v[1] == OPT and v[2] == "Some":
                for p, pv in walk_peers(v):
                    if pv[0] == "stream1" and pv[1] != "p":
                        missing.append("%s's stream (not registered)" % name)
                pred = self.cfg.data_slots.get(name)
                if pred is not None and pred(objs):
                    missing.append("%s holds undelivered work" % name)
        if missing:
            h.report(it, "K5", "park-without-registration:%s" % park,
                     "poll returns Pending (%s) although it could still make progress and has not arranged a wake-up for: %s" % (park, "; ".join(missing)), span)
            f = h.findings.get("K5:park-without-registration:%s" % park)
            if f is not None:
                f.witness.setdefault("all_missing", [])
                for m in missing:
                    if m not in f.witness["all_missing"]:
                        f.witness["all_missing"].append(m)
        # K4: dirty sinks whose flush is not pending
        dirty = []
        for name, v in sorted(objs.items()):
            if isinstance(v, tuple) and v and v[0] == "sinkset" and v[1] and v[3] != "p":
                dirty.append(name)
            if isinstance(v, tuple) and v and v[0] == "var":
                for p, pv in walk_peers(v):
                    if pv[0] == "sink1" and pv[1] and pv[3] != "p" and not pv[5]:
                        dirty.append("%s's sink" % name)
        if dirty:
            h.report(it, "K4", "park-while-dirty:%s" % park,
                     "poll returns Pending (%s) while data handed to %s is still unflushed and no flush is pending: nothing will wake the router to finish it" % (park, ", ".join(dirty)), span)


def _csn(self):
    return {c.split(".")[0] for c in self.consumer_sinks}


Config.consumer_sinks_names = _csn
