"""C10 — at most one replier per topic, with explicit rejection and re-binding."""
from .. import flow
from ..facts import strip_generics, op_local
from . import routers, common as K

EXPLANATION = (
    "(D1) a single replier slot: requests taken from buffered_req are handed only to the bound replier's sink (routing facts) and only while no "
    "request is still buffered (K9); (D2) a Server socket arriving while a replier is bound never replaces it (K1 on `server`) and is queued for "
    "rejection with ErrorPayload.code = REPLIER_ALREADY_BOUND, the same constant the client's is_bind_error tests; (D3) told, then closed: the "
    "rejected sink is closed only after the error frame was handed to it (K11), is never dropped with unflushed data (K10), the rejection slot is "
    "never overwritten (K1 on buffered_err), and no park leaves the rejection unattended or lets the rejected peer gate the bound replier's traffic "
    "(K4/K5 at parks on the rejected sink); (D4) re-binding: once the bound replier's stream ends the slot is cleared before the router moves on "
    "(K12), and no park of the router leaves the requestors' streams without a wake-up (K5 on `stream`), so the re-bound replier is served. "
    "The timing of the close on the wire is NOT decided.")
ASSUMPTIONS = ["operation table of DESIGN §5"]


def is_c10(f):
    if f.kind in ("K10", "K11", "K12"):
        return True
    if f.kind == "K1" and ("slot-overwrite:server" in f.key or "buffered_err" in f.key):
        return True
    if f.kind in ("K4", "K5") and ("local:si" in f.key or "buffered_err" in f.what or "server's stream" in f.what):
        return True
    # "... becomes the bound one and is served": a park that leaves the requestors' streams without a wake-up means no further request
    # reaches whichever replier is (re)bound (seed c10-17: a request window that is not reset when the replier departs)
    if f.kind == "K5" and "stream (not polled" in f.what:
        return True
    if f.kind == "K9" and "server" in f.key:
        return True
    if f.kind == "K14":
        return True
    return False


def run(ctx):
    F = ctx.facts("quick")
    ex, sd, cfg = routers.report(ctx, F, "reqrep", "C10", is_c10)
    p = cfg.body
    ctx.floor("C10.pollai.persistent-states", len(ex.persistent), 8)
    ops = ex.h.ops_seen
    for need in (("local:si", "ready"), ("local:si", "send"), ("local:si", "close"), ("server.0.0", "send")):
        ctx.check(ops.get(need, 0) > 0, "C10.pollai.ops", "reqrep:op-not-seen:%s.%s" % need, "operation %s.%s is exercised by the exploration (%d times)" % (need[0], need[1], ops.get(need, 0)), p.span)
    routing = ex.h.routing
    takes = sorted(o for (k, o, t) in routing if k == "take")
    ctx.check("buffered_req" in takes and any(k == "send" and o == "server.0.0" for (k, o, t) in routing), "C10.D1.single-replier", "reqrep:requests-elsewhere",
              "buffered requests are taken out and handed to the bound replier's sink", p.span)
    # rejection payload
    eps = [(rv, s) for i, j, pl, rv, s in K.aggregates(p, "selium_protocol::frame::ErrorPayload")]
    ctx.floor("C10.D2.rejection.sites", len(eps), 1)
    for rv, s in eps:
        code = rv["ops"][rv["fields"].index("code")]
        ctx.check(code.get("item") == "selium_protocol::error_codes::REPLIER_ALREADY_BOUND", "C10.D2.rejection-code", "reqrep:rejection-code",
                  "a late replier is refused with REPLIER_ALREADY_BOUND (found %s)" % (code.get("item") or code.get("int")), s["span"])
    # it is wrapped in Frame::Error and sent to the rejected sink
    fe = [rv for i, j, pl, rv, s in K.aggregates(p, "selium_protocol::frame::Frame") if rv["variant"] == "Error"]
    ctx.check(len(fe) >= 1, "C10.D3.told", "reqrep:no-error-frame", "the rejection is delivered as a Frame::Error", p.span)
    ibe = F.body("selium::keep_alive::helpers::is_bind_error")
    ctx.touch(ibe)
    items = [o.get("item") for i, j, pl, rv, s in ibe.assigns() if rv["k"] == "binop" and rv["op"] == "Eq" for o in (rv["a"], rv["b"]) if o.get("k") == "const"]
    ctx.check(items == ["selium_protocol::error_codes::REPLIER_ALREADY_BOUND"], "C10.D2.client-agrees", "client:bind-error-code",
              "the client classifies exactly that code as the retryable 'replier already bound' condition", ibe.span)
    client_sees_rejection(ctx, F)


def client_sees_rejection(ctx, F):
    """the rejection reaches the client's retry decision: wherever the client turns a Frame::Error into an error value it builds
    OpenStream(<the frame's code>, ..) — the only shape is_recoverable_error looks into — and is_recoverable_error sends that code
    through the bind-error test"""
    FRAME, SE = "selium_protocol::frame::Frame", "selium_std::errors::SeliumError"
    n = 0
    # variants the retry decision accepts whatever they carry
    ire0 = F.inlined(F.body("selium::keep_alive::helpers::is_recoverable_error"))
    retryable = set()
    for sw in K.find_variant_switches(ire0, SE):
        arms, adt, pl, other, allv = K.arm_map(ire0, sw)
        for v_, blocks in arms.items():
            rets = [flow.const_of(rv["op"]) for i, j, pl_, rv, s_ in K.assigns_in(ire0, blocks) if pl_["l"] == 0 and not pl_["p"] and rv["k"] == "use"]
            if rets and all(r is True for r in rets) and not [c for c in K.calls_in(ire0, blocks)]:
                retryable.add(v_)
    for p_, b0 in sorted(F.bodies.items()):
        if b0.crate != "selium" or "{closure" in p_ and not any(bl["term"]["k"] == "yield" for bl in b0.blocks) and False:
            continue
        if not any(sw for sw in K.find_variant_switches(b0, FRAME)):
            continue
        b = F.inlined(b0)
        for sw in K.find_variant_switches(b, FRAME):
            arms, adt, pl, other, allv = K.arm_map(b, sw)
            if "Error" not in arms or not K.aggregates(b, SE, arms["Error"]):
                continue        # not a site that turns an error frame into an error value
            n += 1
            ctx.touch(b0)
            reg = arms["Error"]
            # the payload's code field
            ep = F.adt("selium_protocol::frame::ErrorPayload")
            cidx = [f["name"] for f in ep["variants"][0]["fields"]].index("code")
            def code_place(pl__):
                return "ErrorPayload" in b.local_ty(pl__["l"]) and [e for e in pl__["p"] if isinstance(e, int)][-1:] == [cidx]
            codes = set()
            for i, j, pl_, rv, s_ in b.assigns():
                o = rv.get("op") if rv["k"] == "use" else None
                if o and o.get("k") in ("copy", "move") and code_place(o["pl"]):
                    codes.add(pl_["l"])
            # where the client distinguishes codes itself, only the path taken for REPLIER_ALREADY_BOUND matters here
            rab = F.const_value("selium_protocol::error_codes::REPLIER_ALREADY_BOUND")
            cv = flow.derived(b, codes, calls=()) if codes else set()
            for i2 in sorted(reg):
                t2 = b.blocks[i2]["term"]
                if t2["k"] == "switch" and t2.get("discr_ty") == "u32" and (op_local(t2["discr"]) in cv or (t2["discr"].get("k") in ("copy", "move") and code_place(t2["discr"]["pl"]))):
                    edge = dict((v_, tg) for v_, tg in t2["targets"]).get(rab, t2["otherwise"])
                    reg = reg & flow.reach_avoiding(b, [edge], [i2])
                    break
            aggs = [(rv, s_) for i, j, pl_, rv, s_ in K.aggregates(b, SE, reg)]
            bad = [(rv, s_) for rv, s_ in aggs if rv.get("variant") != "OpenStream" and rv.get("variant") not in retryable]
            def from_code(o):
                if o.get("k") not in ("copy", "move"):
                    return False
                if code_place(o["pl"]):
                    return True
                return o["pl"]["l"] in flow.derived(b, codes, calls=()) if codes else False
            good = [rv for rv, s_ in aggs if (rv.get("variant") == "OpenStream" and rv.get("ops") and from_code(rv["ops"][0])) or rv.get("variant") in retryable]
            ctx.check(bool(good) and not bad and len(good) == len(aggs), "C10.D2.client-sees-code", "client:error-frame-not-openstream:%s" % p_.split("selium::")[-1].split("::{")[0],
                      "%s turns an error frame into OpenStream(<its code>, ..) on every path (found %s)" % (p_.split("::{")[0], sorted({rv.get("variant") for rv, _ in aggs}) or "nothing"),
                      (bad or aggs or [(None, {"span": b0.span})])[0][1].get("span", b0.span))
    ctx.floor("C10.D2.client-sees-code.sites", n, 2)
    ire = F.inlined(F.body("selium::keep_alive::helpers::is_recoverable_error"))
    ctx.touch(F.body("selium::keep_alive::helpers::is_recoverable_error"))
    ok = False
    for sw in K.find_variant_switches(ire, SE):
        arms, adt, pl, other, allv = K.arm_map(ire, sw)
        if "OpenStream" in arms:
            for i, j, pl_, rv, s_ in K.assigns_in(ire, arms["OpenStream"]):
                if rv["k"] == "binop" and rv["op"] == "Eq" and any(o.get("item") == "selium_protocol::error_codes::REPLIER_ALREADY_BOUND" for o in (rv["a"], rv["b"])):
                    ok = True
    ctx.check(ok, "C10.D2.client-agrees", "client:openstream-not-classified", "is_recoverable_error tests the code of an OpenStream error against REPLIER_ALREADY_BOUND", ire.span)

