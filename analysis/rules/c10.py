"""C10 — at most one replier per topic, with explicit rejection and re-binding."""
from .. import flow
from ..facts import strip_generics, op_local
from . import routers, common as K

EXPLANATION = (
    "(D1) a single replier slot: requests taken from buffered_req are handed only to the bound replier's sink (routing facts) and only while no "
    "request is still buffered (K9); (D2) a Server socket arriving while a replier is bound never replaces it (K1 on `server`) and is queued for "
    "rejection with ErrorPayload.code = REPLIER_ALREADY_BOUND, the same constant the client's is_bind_error tests; (D3) told, then closed: the "
    "rejected sink is closed only after the error frame was handed to it (K11), is never dropped with unflushed data (K10), the rejection slot is "
    "never overwritten (K1 on buffered_err), and no park leaves the rejection unattended or lets the rejected peer gate the bound replier's traffic "
    "(K4/K5 at parks on the rejected sink); (D4) re-binding: once the bound replier's stream ends the slot is cleared before the router moves on "
    "(K12). The timing of the close on the wire is NOT decided.")
ASSUMPTIONS = ["operation table of DESIGN §5"]


def is_c10(f):
    if f.kind in ("K10", "K11", "K12"):
        return True
    if f.kind == "K1" and ("slot-overwrite:server" in f.key or "buffered_err" in f.key):
        return True
    if f.kind in ("K4", "K5") and ("local:si" in f.key or "buffered_err" in f.what or "server's stream" in f.what):
        return True
    if f.kind == "K9" and "server" in f.key:
        return True
    if f.kind == "K14":
        return True
    return False


def run(ctx):
    F = ctx.facts("quick")
    ex, sd, cfg = routers.report(ctx, F, "reqrep", "C10", is_c10)
    p = cfg.body
    ctx.floor("C10.pollai.persistent-states", len(ex.persistent), 8)
    ops = ex.h.ops_seen
    for need in (("local:si", "ready"), ("local:si", "send"), ("local:si", "close"), ("server.0.0", "send")):
        ctx.check(ops.get(need, 0) > 0, "C10.pollai.ops", "reqrep:op-not-seen:%s.%s" % need, "operation %s.%s is exercised by the exploration (%d times)" % (need[0], need[1], ops.get(need, 0)), p.span)
    routing = ex.h.routing
    takes = sorted(o for (k, o, t) in routing if k == "take")
    ctx.check("buffered_req" in takes and any(k == "send" and o == "server.0.0" for (k, o, t) in routing), "C10.D1.single-replier", "reqrep:requests-elsewhere",
              "buffered requests are taken out and handed to the bound replier's sink", p.span)
    # rejection payload
    eps = [(rv, s) for i, j, pl, rv, s in K.aggregates(p, "selium_protocol::frame::ErrorPayload")]
    ctx.floor("C10.D2.rejection.sites", len(eps), 1)
    for rv, s in eps:
        code = rv["ops"][rv["fields"].index("code")]
        ctx.check(code.get("item") == "selium_protocol::error_codes::REPLIER_ALREADY_BOUND", "C10.D2.rejection-code", "reqrep:rejection-code",
                  "a late replier is refused with REPLIER_ALREADY_BOUND (found %s)" % (code.get("item") or code.get("int")), s["span"])
    # it is wrapped in Frame::Error and sent to the rejected sink
    fe = [rv for i, j, pl, rv, s in K.aggregates(p, "selium_protocol::frame::Frame") if rv["variant"] == "Error"]
    ctx.check(len(fe) >= 1, "C10.D3.told", "reqrep:no-error-frame", "the rejection is delivered as a Frame::Error", p.span)
    ibe = F.body("selium::keep_alive::helpers::is_bind_error")
    ctx.touch(ibe)
    items = [o.get("item") for i, j, pl, rv, s in ibe.assigns() if rv["k"] == "binop" and rv["op"] == "Eq" for o in (rv["a"], rv["b"]) if o.get("k") == "const"]
    ctx.check(items == ["selium_protocol::error_codes::REPLIER_ALREADY_BOUND"], "C10.D2.client-agrees", "client:bind-error-code",
              "the client classifies exactly that code as the retryable 'replier already bound' condition", ibe.span)
