"""C16 — shutdown: every topic router terminates after flushing what it accepted."""
from .. import flow
from ..facts import strip_generics, op_local
from . import routers, common as K

EXPLANATION = (
    "(D1) PollAI shutdown obligation K7 on both routers: from EVERY reachable persistent state, with the registration channel closed and every sink "
    "accepting data (sink operations restricted to Ready(Ok)/Ok), every path of the next poll reaches `Return Ready(())` (no Pending return, no "
    "non-consuming cycle), and for pub/sub the buffered message has been handed over and the fan-out is clean at that return; (D2) Server::shutdown "
    "applies close_channel to every topic channel (for_each over values_mut; both Sender arms close) and that dominates the join_all await; lock "
    "order topics -> topic_handles is the same as in handle_stream; (D3) no registration can be stuck under the global lock (C17.D1). Bounded time "
    "in seconds and real sink readiness are NOT decided.")
ASSUMPTIONS = ["operation table of DESIGN §5; futures mpsc close_channel makes the receiver yield None after draining"]


def run(ctx):
    F = ctx.facts("quick")
    for which in ("pubsub", "reqrep"):
        ex, sd, cfg = routers.report(ctx, F, which, "C16", lambda f: f.kind in ("K7", "K15") or (f.kind == "K6" and "closed" in f.what) or (f.kind == "K5" and "handle (" in f.what))
        ctx.floor("C16.%s.shutdown-states" % which, len(sd.persistent), 3 if which == "pubsub" else 6)
        ctx.check(sd.returns["Ready"] >= 1 and sd.returns["Pending"] == 0, "C16.D1.terminates", "%s:shutdown-returns" % which,
                  "%s router: from each of %d states the shutdown poll finishes (Ready returns: %d, Pending returns: %d)" % (which, len(sd.persistent), sd.returns["Ready"], sd.returns["Pending"]), cfg.body.span)
    # the final flush really reaches every subscriber / requestor: sweep rules of the two combinators' poll_flush
    from . import sweeps
    sweeps.fanout_sweep(ctx, F, "C16.D1", "poll_flush")
    sweeps.router_retain(ctx, F, "C16.D1", "poll_flush")
    sh = (F.find_bodies(r"^selium_server::server::Server::shutdown::\{closure#0\}$") or F.find_bodies(r"^selium_server::server::Server::listen::\{closure#0\}$") or [F.one_body(r"^selium_server::server::Server::shutdown::\{closure#0\}$")])[0]
    ctx.touch(sh)
    fe = [c for c in sh.calls() if c.name() == "for_each" and "ValuesMut" in c.full]
    ja = [a for a in flow.awaits(sh) if a.source is not None and strip_generics(a.source.callee).endswith("join_all::join_all")]
    okc = False
    if len(fe) == 1:
        r = flow.root(sh, fe[0].args[1])
        if r[0] == "rv" and r[1]["k"] == "agg" and "closure" in r[1]:
            cb = F.bodies.get(r[1]["closure"])
            if cb is not None:
                ctx.touch(cb)
                okc = len(cb.calls_to("selium_server::topic::Sender::close_channel")) == 1
    ctx.check(okc, "C16.D2.close-all", "shutdown:not-all-closed", "Server::shutdown calls close_channel on every topic channel", sh.span)
    ctx.check(len(ja) == 1 and len(fe) == 1 and sh.dominates(fe[0].bb, ja[0].into.bb), "C16.D2.close-before-join", "shutdown:join-before-close",
              "the channels are closed before shutdown waits for the routers (join_all)", (ja[0].span if ja else sh.span))
    cc = F.body("selium_server::topic::Sender::<T, E>::close_channel")
    ctx.touch(cc)
    sws = K.find_variant_switches(cc, "selium_server::topic::Sender")
    okb = False
    if len(sws) == 1:
        arms, adt, pl, other, allv = K.arm_map(cc, sws[0])
        okb = len(arms) == 2 and all(any(strip_generics(c.callee) == "futures_channel::mpsc::Sender::close_channel" for c in K.calls_in(cc, blocks)) for blocks in arms.values())
    ctx.check(okb, "C16.D2.close-all", "sender:close-arm-missing", "Sender::close_channel closes the underlying channel for both topic kinds", cc.span)
    from . import c17
    c17.d1(ctx, F)
