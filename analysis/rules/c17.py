"""C17 — a stalled topic cannot block registration or traffic on other topics."""
import re
from .. import flow
from ..facts import strip_generics, op_local
from . import common as K

EXPLANATION = (
    "Decided on the pre-coroutine-transform MIR of the server's async functions: (D1) live-across-yield — while a MutexGuard of the global "
    "topic map may be initialised (forward maybe-initialised dataflow: assignment initialises, move/Drop de-initialises), the only futures "
    "awaited are tokio Mutex::lock futures of the other global (topic_handles); awaiting anything whose completion depends on a peer or on one "
    "topic's router (Sender::send into the bounded registration queue, stream I/O) is a violation; evaluated for handle_stream, "
    "Server::shutdown's lock order, and (thorough, --all-features) do_cloud_auth; (D2) every topic gets its own router task and its own "
    "channel: pair() results are spawned / inserted per topic and routers hold no Arc/static shared state; (D5) neither router's poll can go round for ever without consuming anything (PollAI K6): "
    "a poll that never returns Pending never yields its runtime worker to the other topics. The >100-registrations race itself "
    "and QUIC flow control are NOT decided.")
ASSUMPTIONS = ["tokio::sync::Mutex::lock on topic_handles completes without waiting for a peer (its holders never await peers — checked for the functions analysed)"]

# any guard of the global topic registry: Mutex, or the read / write guards of an RwLock (tokio or std), owned or borrowed
class _RegistryGuard:
    @staticmethod
    def match(ty):
        head = ty.split("<", 1)[0]
        return head.startswith(("tokio::sync::", "std::sync::")) and head.endswith("Guard") and "HashMap<" in ty and "selium_server::topic::Sender<" in ty


GUARD_RE = _RegistryGuard
HANDLES_GUARD_RE = re.compile(r"^tokio::sync::mutex::MutexGuard<'_, futures_util::stream::futures_unordered::FuturesUnordered<")
ALLOWED_AWAIT_SOURCES = {"tokio::sync::mutex::Mutex::lock"}


def guard_locals(body, rx):
    return [l["id"] for l in body.locals if rx.match(l["ty"])]


def under_lock_rule(ctx, F, body, tag):
    gl = guard_locals(body, GUARD_RE)
    ctx.touch(body)
    aws = flow.awaits(body)
    n_under = 0
    findings = 0
    ordinal = {}
    for a in sorted(aws, key=lambda a: (a.into.bb)):
        held = []
        for g in gl:
            init_in, at_term = flow.maybe_init_blocks(body, g)
            if a.yield_bb is not None and (at_term[a.yield_bb] or init_in[a.yield_bb]):
                held.append(g)
        if not held:
            continue
        n_under += 1
        name = a.source_name()
        k = ordinal.get(name, 0)
        ordinal[name] = k + 1
        short = name.rsplit("::", 2)
        short = "::".join(short[-2:])
        allowed = name in ALLOWED_AWAIT_SOURCES and not GUARD_RE.match(a.poll.t.get("dest_ty", "")) 
        ctx.check(allowed, "C17.D1.no-peer-await-under-lock", "await-under-topics-lock:%s:%s#%d" % (tag, short, k),
                  "%s: `%s.await` happens while the global topics lock is held (only locking the topic_handles mutex is allowed there)" % (tag, short), a.span)
    return gl, n_under


def d1(ctx, F, label=""):
    hs = K.handle_stream_body(ctx, F)
    gl, n = under_lock_rule(ctx, F, hs, "handle_stream" + label)
    ctx.floor("C17.D1.guard-locals" + label, len(gl), 1)
    sd = (F.find_bodies(r"^selium_server::server::Server::shutdown::\{closure#0\}$") or F.find_bodies(r"^selium_server::server::Server::listen::\{closure#0\}$") or [F.one_body(r"^selium_server::server::Server::shutdown::\{closure#0\}$")])[0]
    ctx.touch(sd)
    # (shutdown deliberately keeps the map locked while it waits for the routers: that is C16's business, not a stall of another topic)
    # lock order: topics before topic_handles everywhere both are taken
    for b in (hs, sd):
        locks = [c for c in b.calls() if strip_generics(c.callee) == "tokio::sync::mutex::Mutex::lock"]
        topics = [c for c in locks if "TopicName" in c.full]
        handles = [c for c in locks if "FuturesUnordered" in c.full]
        for h in handles:
            # is a topics guard possibly held when handles is locked? then no path may lock topics while a handles guard is held
            pass
        hg = guard_locals(b, HANDLES_GUARD_RE)
        bad = False
        for g in hg:
            init_in, at_term = flow.maybe_init_blocks(b, g)
            for t in topics:
                if init_in[t.bb] or at_term[t.bb]:
                    bad = True
        ctx.check(not bad, "C17.D1.lock-order", "lock-order:%s%s" % (b.path.split("::")[2], label),
                  "%s never locks the topics map while holding the topic_handles lock (order topics -> topic_handles)" % b.path.split("::{")[0])


def d2(ctx, F):
    hs = K.handle_stream_body(ctx, F)
    pairs = [c for c in hs.calls() if c.name() == "pair" and "selium_server::topic::" in c.callee]
    ctx.floor("C17.D2.per-topic.pairs", len(pairs), 2)
    spawns = [c for c in hs.calls() if strip_generics(c.callee) == "tokio::task::spawn::spawn"]
    inserts = [c for c in hs.calls() if strip_generics(c.callee) == "std::collections::hash::map::HashMap::insert" and "TopicName" in c.full]
    for p in pairs:
        pv = flow.derived(hs, {p.dest["l"]}, calls=())
        sp = [c for c in spawns if any(op_local(a) in pv for a in c.args) and hs.dominates(p.bb, c.bb)]
        # (the entry may be made after the two kinds' arms have joined: reachable from this pair() and fed by its result)
        ins = [c for c in inserts if c.bb in hs.reachable(p.bb) and op_local(c.args[2]) in flow.derived(hs, {p.dest["l"]}, calls="all")]
        ctx.check(len(sp) == 1 and len(ins) == 1, "C17.D2.per-topic", "per-topic:%s" % p.callee.split("::")[-3],
                  "each new %s topic gets its own spawned router task and its own channel entry" % p.callee.split("::")[-3], p.span)
    # every stream registration runs in its own task: handle_stream is only ever called from a future handed to tokio::spawn, so a
    # registration that waits (for room in one topic's queue) cannot hold up the connection's accept loop or other streams
    callers = F.callers_of("selium_server::server::handle_stream")
    ctx.floor("C17.D2.own-task.call-sites", len(callers), 1)
    for c in callers:
        b = c.body
        ctx.touch(b)
        spawned = False
        parent_path = b.path.rsplit("::{closure", 1)[0]
        parent = F.bodies.get(parent_path)
        if parent is not None and "{closure" in b.path:
            for i, j, pl, rv, st_ in parent.assigns():
                if rv["k"] == "agg" and rv.get("closure") == b.path:
                    v = flow.derived(parent, {pl["l"]}, calls=())
                    if any(strip_generics(x.callee) == "tokio::task::spawn::spawn" and any(op_local(a) in v for a in x.args) for x in parent.calls()):
                        spawned = True
                    # or handed to a workspace-local wrapper that spawns the future it is given (e.g. `spawn_logged(what, fut)`)
                    for x in parent.calls():
                        wb = F.bodies.get(x.t.get("resolved") or "")
                        if wb is None or wb.crate != "selium_server" or not any(op_local(a) in v for a in x.args):
                            continue
                        for k_, a in enumerate(x.args):
                            if op_local(a) in v:
                                pv = flow.derived(wb, {k_ + 1}, calls=())
                                if any(strip_generics(y.callee) == "tokio::task::spawn::spawn" and any(op_local(b_) in pv for b_ in y.args) for y in wb.calls()):
                                    spawned = True
        if not spawned and c.dest is not None:
            # the future returned by handle_stream(..) is itself handed to tokio::spawn or to a spawning wrapper (never awaited here)
            v = flow.derived(b, {c.dest["l"]}, calls=())
            for x in b.calls():
                if x is c or not any(op_local(a) in v for a in x.args):
                    continue
                if strip_generics(x.callee) == "tokio::task::spawn::spawn":
                    spawned = True
                wb = F.bodies.get(x.t.get("resolved") or "")
                if wb is not None and wb.crate == "selium_server":
                    for k_, a in enumerate(x.args):
                        if op_local(a) in v:
                            pv = flow.derived(wb, {k_ + 1}, calls=())
                            if any(strip_generics(y.callee) == "tokio::task::spawn::spawn" and any(op_local(b_) in pv for b_ in y.args) for y in wb.calls()):
                                spawned = True
            if any(a.source is c for a in flow.awaits(b)):
                spawned = False
        ctx.check(spawned, "C17.D2.own-task", "handle_stream-awaited-inline:%s" % b.path.split("selium_server::")[-1],
                  "handle_stream runs in a task of its own (called only inside a future passed to tokio::spawn)", c.span)
    # routers share nothing: no Arc / Mutex / static in the router structs
    for adt in ("selium_server::topic::pubsub::Topic", "selium_server::topic::reqrep::Topic", "selium_server::sink::fanout_many::FanoutMany", "selium_server::sink::router::Router"):
        a = F.adt(adt)
        shared = [f["name"] for f in a["variants"][0]["fields"] if re.search(r"\b(Arc|Rc|Mutex|RwLock|RefCell)<", f["ty"])]
        ctx.check(not shared, "C17.D2.no-shared-state", "shared-state:%s" % adt.rsplit("::", 2)[-2], "%s holds no shared (Arc/Mutex) state: %s" % (adt, shared or "none"), a["span"])
    statics = [p for p, c in F.consts.items() if p.startswith("selium_server::") and c["kind"] == "static" and ("topic" in p or "sink" in p)]
    ctx.check(not statics, "C17.D2.no-shared-state", "router-statics", "no statics in the router / sink modules (%s)" % statics)


def d3(ctx, F):
    """transport-level sharing between topics: all of a client's streams share one QUIC connection, so the connection-level flow-control
    window must not be capped at (or below) the per-stream window — otherwise the unread bytes of one stalled topic's stream use up the
    credit of the whole connection and the client's other topics stop too. quinn's default connection window is unlimited."""
    # both ends advertise a window: the server's bounds what clients may send it, the client's bounds what the server may have in
    # flight to that client over all of its subscriptions
    for path, side in (("selium_server::quic::server_config", "quic"), ("selium::connection::configure_client", "client")):
        _d3_one(ctx, F, path, side)


def _d3_one(ctx, F, path, side):
    sc = F.inlined(F.body(path))
    ctx.touch(F.body(path))
    def val(c):
        r = flow.root(sc, c.args[1], through_calls=flow.ADAPTERS | {"quinn_proto::varint::VarInt::from_u32", "quinn_proto::varint::VarInt::from_u64"})
        v = flow.const_of(r[1]) if r[0] == "const" else None
        return v
    conn = [c for c in sc.calls() if c.name() == "receive_window" and "TransportConfig" in c.callee]
    strm = [c for c in sc.calls() if c.name() == "stream_receive_window" and "TransportConfig" in c.callee]
    ok = True
    why = "the connection-level receive window is left at quinn's default (unlimited)"
    if conn:
        cv = [val(c) for c in conn]
        sv = [val(c) for c in strm] or [1_250_000]        # quinn's default stream window is on the order of a megabyte
        ok = all(v is not None for v in cv) and all(v is not None for v in sv) and min(cv) >= 4 * max(sv)
        why = "connection window %s vs stream window %s (must leave room for several stalled streams)" % (cv, sv)
    ctx.check(ok, "C17.D3.connection-window", "%s:connection-window-capped" % side, "one stalled stream cannot exhaust a client's connection-level flow control: " + why,
              (conn or [sc])[0].span)


HELD_RE = re.compile(r"\b(\w*Permit|\w*Guard)<")


def _topic_wait(a):
    return a.source_name().startswith("selium_server::topic::Sender::")


def d4(ctx, F, label=""):
    """the wait for room in one topic's registration queue is the only unbounded wait of a registration; it must stay private to that
    registration: (a) it happens only in the stream's own handler (not in a task that serves several topics in turn), and (b) nothing
    that other registrations need — a permit, a guard — is held while it lasts, in the handler or in the task wrapped around it"""
    hs = F.one_body(r"^selium_server::server::handle_stream::\{closure#0\}$")
    waiters = {}
    for p_, b in F.bodies.items():
        if b.crate != "selium_server" or p_.startswith("selium_server::topic::Sender::") or not any(bl["term"]["k"] == "yield" for bl in b.blocks):
            continue
        ws = [a for a in flow.awaits(b) if _topic_wait(a)]
        if ws:
            waiters[p_] = (b, ws)
    ctx.floor("C17.D4.handover-waits" + label, sum(len(w) for _, w in waiters.values()), 1)
    for p_, (b, ws) in sorted(waiters.items()):
        ctx.touch(b)
        if b is hs:
            continue
        parent = p_.rsplit("::{closure", 1)[0]
        callers = F.callers_of(parent)
        ok = bool(callers) and all(c.body.path in waiters or c.body is hs for c in callers)
        ctx.check(ok, "C17.D4.handover-in-own-task", "topic-queue-wait-outside-handler:%s%s" % (parent.split("selium_server::")[-1], label),
                  "%s waits for room in a topic's queue; only a stream's own handler (handle_stream, or an async helper it alone awaits) may do that, "
                  "so that a full queue holds up nobody but that registration" % parent, ws[0].span)
    # (c) a registration waits only for its own stream, the two registries' locks and its own topic's queue: every other wait (a signal
    # from another stream's handler, a semaphore, a timer that tears things down, a task handle) couples it to something that may
    # itself be parked behind a stalled topic
    hsi = K.handle_stream_body(ctx, F)
    OWN = ("futures_util::stream::stream::StreamExt::next", "futures_util::sink::SinkExt::send", "futures_util::sink::SinkExt::flush", "futures_util::sink::SinkExt::close",
           "tokio::sync::mutex::Mutex::lock", "selium_server::topic::Sender::", "selium_server::cloud::", "selium_protocol::bistream::BiStream::")
    for a in flow.awaits(hsi):
        nm = a.source_name()
        own = nm.startswith(OWN) or (a.source is not None and (a.source.t.get("resolved") or "").startswith(("selium_server::", "<selium_server::")))
        ctx.check(own, "C17.D4.waits-only-for-its-own", "handle_stream-foreign-wait:%s%s" % (nm.rsplit("::", 2)[-2] + "::" + nm.rsplit("::", 1)[-1] if "::" in nm else nm, label),
                  "handle_stream awaits only its own stream, the registries' locks and its topic's queue (found `%s.await`)" % nm, a.span)
    wrappers = [c.body for c in F.callers_of("selium_server::server::handle_stream")]
    for b in [hs] + [w for w in wrappers if w is not hs]:
        if not any(bl["term"]["k"] == "yield" for bl in b.blocks):
            continue
        ctx.touch(b)
        held_l = [l["id"] for l in b.locals if HELD_RE.search(l["ty"]) and not GUARD_RE.match(l["ty"]) and not HANDLES_GUARD_RE.match(l["ty"])]
        for a in flow.awaits(b):
            if not (_topic_wait(a) or a.source_name() == "selium_server::server::handle_stream") or a.yield_bb is None:
                continue
            for g in held_l:
                init_in, at_term = flow.maybe_init_blocks(b, g)
                if at_term[a.yield_bb] or init_in[a.yield_bb]:
                    ctx.fail("C17.D4.nothing-held-across-handover", "held-across-topic-queue-wait:%s:%s%s" % (b.path.split("selium_server::")[-1], b.local_ty(g).split("<")[0].rsplit("::", 1)[-1], label),
                             "%s keeps a `%s` while the registration waits for room in one topic's queue: once enough registrations wait there, every other topic's registrations starve" % (b.path, b.local_ty(g)[:90]), a.span)
    ctx.ok("C17.D4.nothing-held-across-handover", "no permit or guard is live across the hand-over wait in handle_stream or the %d task wrapper(s) around it%s" % (len(wrappers), label), hs.span)


def run(ctx):
    F = ctx.facts("quick")
    d1(ctx, F)
    d2(ctx, F)
    d3(ctx, F)
    d4(ctx, F)
    # (D5) routers run as tasks on shared runtime workers: a `poll` that can go round for ever without consuming anything (K6) never yields
    # its worker, so one stalled topic per worker stops every other topic (seed c17-19: park on the fan-out's poll_ready removed + `continue`
    # while the slot is occupied)
    from . import routers
    for which in ("pubsub", "reqrep"):
        ex, sd, cfg = routers.report(ctx, F, which, "C17", lambda f: f.kind == "K6")
        ctx.floor("C17.D5.%s.persistent-states" % which, len(ex.persistent), 4 if which == "pubsub" else 8)
        ctx.ok("C17.D5.explored", "%s router: %d reachable persistent states, %d (block,state) nodes searched for cycles that consume nothing (K6)"
               % (which, len(ex.persistent), len(ex.it.nodes)), cfg.body.span)
    if ctx.tier == "thorough":
        FF = ctx.facts("allfeatures")
        d1(ctx, FF, "[all-features]")
        d4(ctx, FF, "[all-features]")
        ca = FF.find_bodies(r"^selium_server::cloud::do_cloud_auth::\{closure#0\}$")
        ctx.floor("C17.D1.cloud-auth-body", len(ca), 1)
        for b in ca:
            under_lock_rule(ctx, FF, b, "do_cloud_auth")
