"""C02 — request/reply routing: replies reach only the originating requestor, none lost."""
from .. import flow, panics
from ..facts import strip_generics, op_local, rv_locals
from . import routers, sweeps, common as K

EXPLANATION = (
    "(D1) the origin tag cannot be forged: on the path from a request yielded by the requestor StreamMap to buffered_req, HashMap::insert (which "
    "overwrites; not entry().or_insert / get_or_insert on the key) is called on the frame's headers with the key literal that equals "
    "router::CLIENT_ID_HEADER and a value formatted from the StreamMap key of that same yield; next_id is used for both the stream and the sink of "
    "one registration and is only ever incremented; (D2) Router::start_send sends to the entry found by entries.get_mut(&cid) where cid is parsed from "
    "the value returned by headers.remove(CLIENT_ID_HEADER), forwards the incoming message bytes with the remaining headers (None iff empty), and "
    "missing / unparsable / unknown tags return Err without any panic site (E4 with D1/D2 discharge); (D3/D4) PollAI on the req/rep router: no "
    "overwrite of buffered_rep, buffered_req overwritten only while no replier is bound (K1), nothing handed to a sink while its slot still holds a "
    "message (K9), poll_ready before start_send (K3). That a real replier echoes headers (C04) and payload equality on the wire are NOT decided. Also K6: no router poll can go round for ever without consuming anything (a spinning router serves nobody).")
ASSUMPTIONS = ["operation table of DESIGN §5", "StreamMap yields (key, item) with the key the stream was inserted under"]


def d1(ctx, F):
    ex, sd, cfg, me = routers.explore(F, "reqrep")
    p = cfg.body
    hdr = F.const_value("selium_server::sink::router::CLIENT_ID_HEADER")
    ins = [c for c in p.calls() if strip_generics(c.callee) == "std::collections::hash::map::HashMap::insert" and "String, alloc::string::String" in c.full]
    ctx.floor("C02.D1.tag-insert.sites", len(ins), 1)
    # locals bound to the StreamMap key of a yielded item: field 0 of the (key, item) tuple out of stream.poll_next
    sp = [c for c in p.calls() if strip_generics(c.callee) == "futures_core::stream::Stream::poll_next" and "StreamMap" in c.self_ty]
    keyl = set()
    if sp:
        dv = flow.derived(p, {sp[0].dest["l"]}, calls=())
        for i, j, pl, rv, s in p.assigns():
            if rv["k"] == "use" and rv["op"].get("k") in ("copy", "move") and rv["op"]["pl"]["l"] in dv:
                pr = rv["op"]["pl"]["p"]
                ints = [e for e in pr if isinstance(e, int)]
                if ints[-2:] == [0, 0] and p.local_ty(pl["l"]) == "usize":
                    keyl.add(pl["l"])
    keyv = flow.derived(p, keyl, calls="all")
    good = False
    for c in ins:
        k = flow.root(p, c.args[1])
        kk = flow.const_of(k[1]) if k[0] == "const" else None
        if kk == hdr and op_local(c.args[2]) in keyv:
            good = True
            where = c.span
    ctx.check(good and bool(keyl), "C02.D1.tag-unforgeable", "reqrep:tag-not-overwritten",
              "each request gets headers.insert(%r, <StreamMap key of the requestor it came from>) — an unconditional overwrite of any requestor-supplied tag" % hdr, (ins or [p])[0].span)
    weak = [c for c in p.calls() if strip_generics(c.callee) in ("std::collections::hash::map::HashMap::entry", "std::collections::hash::map::Entry::or_insert",
                                                                 "std::collections::hash::map::Entry::or_insert_with", "std::collections::hash::map::HashMap::try_insert")]
    ctx.check(not weak, "C02.D1.tag-unforgeable", "reqrep:tag-or-insert", "the tag is not written with an entry()/or_insert form that would keep a forged tag", (weak or [p])[0].span)
    # the frame stored into buffered_req is built from that payload
    # counters: next_id feeds both inserts of a Client socket and is only incremented
    routing = ex.h.routing
    keys = sorted({(o, t) for (k, o, t) in routing if k == "insert"})
    ctx.check(("stream", "key:next_id") in keys and ("sink", "key:next_id") in keys and len(keys) == 2, "C02.D1.same-id", "reqrep:id-mismatch",
              "a requestor's stream and reply sink are registered under the same id counter value (inserts: %s)" % keys, p.span)
    nid = p.local_by_debug("next_id")
    i1 = [c for c in p.calls() if strip_generics(c.callee) == "tokio_stream::stream_map::StreamMap::insert"]
    i2 = [c for c in p.calls() if strip_generics(c.callee) == "selium_server::sink::router::Router::insert"]
    wblocks = {i for i, j, pl, rv, s in p.assigns() if pl["l"] in nid and "*" in pl["p"]}
    okb = len(i1) == 1 and len(i2) == 1
    if okb:
        a, b_ = (i1[0], i2[0]) if p.dominates(i1[0].bb, i2[0].bb) else (i2[0], i1[0])
        fwd = flow.reach_avoiding(p, [a.target], [b_.bb])
        between = {w for w in wblocks if w in fwd and b_.bb in flow.reach_avoiding(p, [w], [a.bb])}
        okb = p.dominates(a.bb, b_.bb) and not between
    ctx.check(okb, "C02.D1.same-id", "reqrep:id-changes-between-inserts", "the id counter is not modified between registering a requestor's stream and its reply sink", (i1 or i2 or [p])[0].span)
    writes = []
    for i, j, pl, rv, s in p.assigns():
        if pl["l"] in nid and "*" in pl["p"]:
            r = flow.root(p, rv["op"]) if rv["k"] == "use" else ("rv", rv)
            okw = r[0] == "rv" and r[1]["k"] == "binop" and r[1]["op"] in ("AddWithOverflow", "Add") and flow.const_of(r[1]["b"]) == 1
            writes.append(okw)
    ctx.check(writes and all(writes), "C02.D1.id-monotone", "reqrep:id-reset", "next_id is only ever incremented by one (ids are not reused)", p.span)


def d2(ctx, F):
    rs = F.impl_method("futures_sink::Sink", sweeps.ROUTER, "start_send")
    ctx.touch(rs)
    rs = F.inlined(rs)          # a header-parsing helper is looked through
    hdr_item = "selium_server::sink::router::CLIENT_ID_HEADER"
    rem = [c for c in rs.calls() if strip_generics(c.callee) == "std::collections::hash::map::HashMap::remove" and "String, alloc::string::String" in c.full]
    gm = [c for c in rs.calls() if strip_generics(c.callee) == "std::collections::hash::map::HashMap::get_mut" and "<K, V>" in c.full]
    cc = sweeps.child_calls(rs)
    if not ctx.check(len(rem) == 1 and len(gm) == 1 and len(cc) == 1, "C02.D2.reply-route", "router:start_send:shape",
                     "Router::start_send removes the tag once, looks the entry up once and sends once", rs.span):
        return
    k = flow.root(rs, rem[0].args[1])
    ctx.check(k[0] == "const" and k[1].get("item") == hdr_item, "C02.D2.tag-stripped", "router:tag-not-removed", "the routing tag is removed from the headers (remove(CLIENT_ID_HEADER))", rem[0].span)
    cidv = flow.derived(rs, {rem[0].dest["l"]}, calls="all")
    ctx.check(op_local(gm[0].args[1]) in cidv, "C02.D2.reply-route", "router:lookup-other-key", "the target entry is looked up under the id parsed from the removed tag", gm[0].span)
    tv = flow.derived(rs, {gm[0].dest["l"]}, calls="adapters")
    ctx.check(op_local(cc[0].args[0]) in tv, "C02.D2.reply-route", "router:send-to-other", "the reply is sent to exactly that entry", cc[0].span)
    # forwarded frame: message bytes of the incoming payload; headers = the same map after the remove (or None iff empty)
    mp = [(rv, s) for i, j, pl, rv, s in K.aggregates(rs, "selium_protocol::frame::MessagePayload")]
    okm = False
    if len(mp) == 1:
        rv = mp[0][0]
        fields = rv["fields"]
        m = rv["ops"][fields.index("message")]
        r = flow.root(rs, m)
        # the message operand is the `message` field of the payload taken out of the incoming frame (argument 2)
        incoming = {l for l in flow.derived(rs, {2}, calls=()) if rs.local_ty(l).startswith("selium_protocol::frame::MessagePayload")}
        midx = fields.index("message")
        def is_msg_of_incoming(pl):
            return pl["l"] in incoming and [e for e in pl["p"] if isinstance(e, int)] == [midx]
        okm = (m.get("k") in ("move", "copy") and is_msg_of_incoming(m["pl"])) or (r[0] == "rv" and r[1]["k"] == "use" and r[1]["op"].get("k") in ("move", "copy") and is_msg_of_incoming(r[1]["op"]["pl"]))
        h = rv["ops"][fields.index("headers")]
        # the headers operand is the very map the tag was removed from (wrapped in Some), or None
        hm = flow.root_local(rs, rem[0].args[0])
        hv = flow.derived(rs, {hm} if hm is not None else set(), calls=("core::option::Option::Some", "core::bool::<impl bool>::then_some", "core::bool::<impl bool>::then"))
        okh = op_local(h) in hv or flow.root_local(rs, h) in hv
        ctx.check(okh, "C02.D2.rest-intact", "router:headers-dropped", "the remaining headers travel with the reply (None only when empty)", mp[0][1]["span"])
    ctx.check(okm, "C02.D2.rest-intact", "router:message-rebuilt", "the reply's message bytes are the incoming ones", rs.span)
    # malformed / unknown tags: Err without panic
    sites = panics.analyse(ctx, [rs], "C02.D2.bad-tag-no-panic", include_alloc=False)
    # (no floor on the number of panic-capable sites: a version without unwraps has none; the body itself is resolved fail-closed)
    errs = [1 for i, j, pl, rv, s in K.aggregates(rs, "core::result::Result") if rv["variant"] == "Err"]
    ctx.floor("C02.D2.bad-tag-errors", len(errs) + len([c for c in rs.calls() if strip_generics(c.callee) == "core::ops::try_trait::FromResidual::from_residual"]), 4)


def tag_format(ctx, F):
    """the routing tag the topic writes is what the Router parses: the requestor id rendered with plain `Display` (`parse::<K>()` reads
    decimal) — no radix / padding / debug formatting of the id"""
    from . import routers
    cfg, init, me = routers.config(F, "reqrep")
    b = cfg.body
    fm = [c for c in b.calls() if strip_generics(c.callee).startswith("core::fmt::rt::Argument::new_") and not c.macros_contain("error") and not c.macros_contain("warn")] if hasattr(b.calls()[0], "macros_contain") else \
         [c for c in b.calls() if strip_generics(c.callee).startswith("core::fmt::rt::Argument::new_") and not any(m in ("error", "warn", "info", "debug", "trace", "log") or m.startswith("log::") for m in (c.macros or []))]
    kinds = sorted({strip_generics(c.callee).rsplit("::", 1)[-1] for c in fm})
    ctx.check(fm and kinds == ["new_display"], "C02.D1.tag-format", "reqrep:tag-format", "the routing tag is the id's plain Display rendering (found %s)" % (kinds or "no formatting call"), (fm or [b])[0].span)


def run(ctx):
    F = ctx.facts("quick")
    K.socket_pass_through(ctx, F, "C02.D5")
    tag_format(ctx, F)
    # "payload and headers intact, exactly once" also depends on the frame codec the router's peers are written through: several frames
    # queued for one peer share a write buffer, so the length prefix must be right at any buffer offset (C05.D2) and both directions
    # must agree on the limit (C05.D3)
    from . import c05
    c05.d2(ctx, F)
    c05.d3(ctx, F)
    ex, sd, cfg = routers.report(ctx, F, "reqrep", "C02", lambda f: (f.kind in ("K1", "K3", "K9", "K13") and "buffered_err" not in f.key and "local:si" not in f.key and "slot-overwrite:server" not in f.key) or f.kind in ("K4", "K5", "K6", "K14"))
    ctx.floor("C02.pollai.persistent-states", len(ex.persistent), 8)
    ctx.ok("C02.pollai", "req/rep router explored exhaustively: %d persistent states, %d (block,state) nodes" % (len(ex.persistent), len(ex.it.nodes)), cfg.body.span)
    routing = ex.h.routing
    sends = sorted((o, t) for (k, o, t) in routing if k == "send" and o == "sink")
    ctx.check(sends and all(t.startswith("server") for o, t in sends), "C02.D3.routing", "reqrep:reply-source", "the only values handed to the requestor router are items yielded by the bound replier's stream (%s)" % sends, cfg.body.span)
    d1(ctx, F)
    d2(ctx, F)
    for m in ("poll_ready", "poll_flush", "poll_close"):
        sweeps.router_retain(ctx, F, "C02.D2", m)
