"""C09 — topic routers never spin and never sleep on undone work."""
from . import routers

EXPLANATION = (
    "PollAI (DESIGN §1 E3): an exhaustive, path-sensitive typestate analysis of the MIR of both <Topic as Future>::poll bodies over a finite "
    "abstract domain. Every tracked operation (channel / stream-set / peer stream poll_next, sink poll_ready/start_send/poll_flush/poll_close, "
    "Option slots) forks into all of its abstract outcomes (Pending, Ready(Some/None/Err), Ok/Err); every reachable persistent router state is the "
    "entry state of a poll invocation; the (block, state) graph is explored to a fix-point. Checked for ALL reachable states: K6 — no cycle made "
    "only of non-consuming edges inside one poll (unbounded work in one step); K5 — at every `Return Pending` that is not the direct Pending of a "
    "consumer sink (back-pressure), every enabled source was polled to Pending in this invocation and no buffered work is left unattempted; K4 — no "
    "such park while a sink holds unflushed data whose flush is not pending. The two sink combinators are checked separately (sweep rules: Ready only after a complete sweep, Pending only from an entry). CPU time and executor fairness are NOT decided.")
ASSUMPTIONS = ["operation table of DESIGN §5 (mpsc::Receiver registers its waker only when it returns Pending; StreamMap::poll_next returns Ready(None) iff empty; a boxed peer sink/stream may answer anything at any time)"]


def run(ctx):
    F = ctx.facts("quick")
    for which in ("pubsub", "reqrep"):
        ex, sd, cfg = routers.report(ctx, F, which, "C09", lambda f: f.kind in ("K4", "K5", "K6"))
        ctx.floor("C09.%s.persistent-states" % which, len(ex.persistent), 4 if which == "pubsub" else 8)
        ctx.floor("C09.%s.park-sites" % which, ex.returns["Pending"], 1)
        ctx.ok("C09.explored", "%s router: %d reachable persistent states, %d (block,state) nodes, %d Pending / %d Ready returns examined for K4/K5, whole graph for K6"
               % (which, len(ex.persistent), len(ex.it.nodes), ex.returns["Pending"], ex.returns["Ready"]), cfg.body.span)
    # PollAI treats the sink combinators' operations as atomic ("flush: Pending | Ready"); that abstraction is only right if a Ready from
    # them really means every entry was polled in that call and a Pending came from an entry (which then holds the waker): sweep rules
    from . import sweeps
    for m in ("poll_ready", "poll_flush", "poll_close"):
        sweeps.fanout_sweep(ctx, F, "C09.D2", m)
        sweeps.router_retain(ctx, F, "C09.D2", m)
