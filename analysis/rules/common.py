"""Shared helpers for the per-property rule modules."""
from ..facts import strip_generics, op_local, rv_locals, place_str
from .. import flow

TRY_BRANCH = "core::ops::try_trait::Try::branch"
FROM_RESIDUAL = "core::ops::try_trait::FromResidual::from_residual"


def return_locals(body):
    """locals whose value is what the function returns: _0 and, after inlining, the return places of helpers whose result is returned
    as it is (plain moves into _0)"""
    retl = {0}
    grew = True
    while grew:
        grew = False
        for i, j, pl, rv, s in body.assigns():
            if pl["l"] in retl and not pl["p"] and rv["k"] == "use" and rv["op"].get("k") in ("copy", "move") and not rv["op"]["pl"]["p"] and rv["op"]["pl"]["l"] not in retl:
                retl.add(rv["op"]["pl"]["l"])
                grew = True
    return retl


def site(x):
    return getattr(x, "span", None) or (x if isinstance(x, str) else "")


def exclusive_regions(body, targets, switch_bb=None):
    """For switch targets: blocks reachable from exactly one target (the 'arm' of that target), not counting
    paths that come back through the switch itself (loops)."""
    avoid = [switch_bb] if switch_bb is not None else []
    reach = {t: flow.reach_avoiding(body, [t], avoid) for t in set(targets)}
    count = {}
    for t, r in reach.items():
        for b in r:
            count[b] = count.get(b, 0) + 1
    return {t: {b for b in r if count[b] == 1} for t, r in reach.items()}


def calls_in(body, blocks):
    return [c for c in body.calls() if c.bb in blocks]


def assigns_in(body, blocks):
    return [(i, j, pl, rv, s) for i, j, pl, rv, s in body.assigns() if i in blocks]


def aggregates(body, adt=None, blocks=None):
    out = []
    for i, j, pl, rv, s in body.assigns():
        if blocks is not None and i not in blocks:
            continue
        if rv["k"] == "agg" and rv.get("agg") == "adt" and (adt is None or rv["adt"] == adt):
            out.append((i, j, pl, rv, s))
    return out


def try_edges(body, call):
    """If the call's result is consumed by `?` (Try::branch + switch), returns
    (continue_block, break_block, branch_call) else None. Follows plain moves / map_err in between."""
    cur = call
    for _ in range(6):
        if cur.target is None or cur.dest is None:
            return None
        nxt = None
        # find a call in the straight-line successor chain that consumes cur.dest
        bb = cur.target
        seen = 0
        locs = flow.derived(body, {cur.dest["l"]}, calls=())
        while seen < 16:
            seen += 1
            t = body.term(bb)
            if t["k"] == "call":
                c2 = [c for c in body.calls() if c.bb == bb][0]
                if any(op_local(a) in locs for a in c2.args):
                    nxt = c2
                    break
                # an unrelated call evaluated in between (e.g. the argument of ok_or(..)): keep walking
                if t.get("target") is None:
                    break
                bb = t["target"]
                continue
            if t["k"] in ("goto", "drop"):
                bb = t["target"]
                continue
            if t["k"] == "switch" and t.get("std_summary") == "core::option::Option::ok_or" and t.get("targets"):
                # `opt.ok_or(e)` written out by the inliner: follow the Some arm (dest = Ok(payload)) to the join
                some_bb = t["targets"][0][1]
                for s_ in body.blocks[some_bb]["stmts"]:
                    if s_["k"] == "assign" and s_["rv"]["k"] == "agg" and s_["rv"].get("variant") == "Ok":
                        locs = locs | {s_["pl"]["l"]}
                bb = body.term(some_bb).get("target", bb)
                continue
            break
        if nxt is None:
            return None
        if nxt.is_(TRY_BRANCH):
            sw = nxt.target
            for _ in range(3):
                t = body.term(sw)
                if t["k"] == "switch":
                    v = flow.switch_on_variant(body, sw)
                    if v is None:
                        return None
                    _, adt, m, other, _, _ = v
                    return m.get("Continue"), m.get("Break"), nxt
                if t["k"] in ("goto", "drop"):
                    sw = t["target"]
                else:
                    return None
            return None
        if strip_generics(nxt.callee) in ("core::result::Result::map_err", "core::result::Result::ok_or", "core::option::Option::ok_or",
                                          "anyhow::Context::context", "anyhow::Context::with_context"):
            cur = nxt
            continue
        return None
    return None


def returns_err_without(body, from_block, avoid_blocks):
    """does some path from from_block reach a Return while avoiding avoid_blocks"""
    r = flow.reach_avoiding(body, [from_block], avoid_blocks)
    return bool(r & set(body.returns()))


def first_call(body, *names):
    cs = body.calls_to(*names)
    return cs[0] if cs else None


def const_operand_item(op):
    return op.get("item") if op and op.get("k") == "const" else None


def arg_root_locals(body, call, idx):
    if idx >= len(call.args):
        return None
    return flow.root_local(body, call.args[idx])


def user_var(body, name):
    ls = body.local_by_debug(name)
    return ls[0] if ls else None


def arm_map(body, switch_bb):
    """variant name -> exclusive block set for a SWITCH over an enum discriminant"""
    v = flow.switch_on_variant(body, switch_bb)
    if v is None:
        return None
    pl, adt, m, other, allv, _ = v
    regs = exclusive_regions(body, list(m.values()) + [other], switch_bb)
    return {name: regs[t] for name, t in m.items()}, adt, pl, regs.get(other, set()), allv


def find_variant_switches(body, adt):
    out = []
    for i, b in enumerate(body.blocks):
        if b.get("cleanup") or b["term"]["k"] != "switch":
            continue
        v = flow.switch_on_variant(body, i)
        if v and v[1] == adt:
            out.append(i)
    return out


def handle_stream_body(ctx, F):
    """server::handle_stream's coroutine with the private (async) helpers of server.rs it is split into looked through"""
    hs0 = F.one_body(r"^selium_server::server::handle_stream::\{closure#0\}$")
    ctx.touch(hs0)
    # (also constructors on the topic handle type such as a `Sender::spawn_topic`, but never the routers or the queue operations)
    keep = [p_ for p_ in F.bodies if p_.startswith("selium_server::topic::Sender::") and p_.split("::{")[0].rsplit("::", 1)[-1] in ("send", "accepts", "close_channel", "clone")]
    return F.inlined(hs0, only=("selium_server::server::", "selium_server::topic::Sender::"), keep=keep)


WAKES = ("core::task::wake::Waker::wake_by_ref", "core::task::wake::Waker::wake")


def pending_discipline(ctx, F, body0, prefix, label):
    """A hand-written poll function may answer Pending only if a wake-up has been arranged during this very call: every path to a
    `Poll::Pending` it builds itself passes through the Pending arm of a child poll made in this call (the child registered the waker)
    or through a `wake_by_ref`. Evaluated on the body with its local helpers inlined. Returns the number of Pending sites examined."""
    from ..facts import strip_generics
    b = F.inlined(body0)
    retl = {0}
    grew = True
    while grew:
        grew = False
        for i, j, pl, rv, s in b.assigns():
            if pl["l"] in retl and not pl["p"] and rv["k"] == "use" and rv["op"].get("k") in ("copy", "move") and not rv["op"]["pl"]["p"] and rv["op"]["pl"]["l"] not in retl:
                retl.add(rv["op"]["pl"]["l"])
                grew = True
    arranged = set()
    for c in b.calls():
        if strip_generics(c.callee) in WAKES:
            arranged.add(c.bb)
        elif c.dest is not None and b.local_ty(c.dest["l"]).startswith("core::task::poll::Poll<"):
            m = flow.switch_after_call(b, c)
            if m and "Pending" in m:
                arranged.add(m["Pending"])
    n = 0
    for i, j, pl, rv, s in b.assigns():
        if rv["k"] == "agg" and rv.get("adt") == "core::task::poll::Poll" and rv.get("variant") == "Pending" and pl["l"] in retl and not b.blocks[i].get("cleanup"):
            n += 1
            ok = i in arranged or i not in flow.reach_avoiding(b, [0], arranged)
            ctx.check(ok, prefix, "pending-without-waker:%s#%d" % (label, n),
                      "%s answers Pending only after a child poll of this call returned Pending or after waking itself" % label, s["span"])
    return n


SOCKET_ADTS = ("selium_server::topic::pubsub::Socket", "selium_server::topic::reqrep::Socket")
_SOCKET_PASS = {"pin", "new", "split", "into", "from", "boxed", "into_inner", "unsize", "box_new"}


def socket_pass_through(ctx, F, prefix):
    """what the server hands to a topic is the peer's own framed stream / sink, boxed and nothing else: no stream or sink adapter
    (filter, map, take_while, with, buffer ..) sits between the split of the BiStream and the socket — an adapter silently changes
    which frames reach the subscribers"""
    hs = handle_stream_body(ctx, F)
    defs = {}
    for i, j, pl, rv, s in hs.assigns():
        if not pl["p"]:
            defs.setdefault(pl["l"], []).append(("rv", rv))
    for c in hs.calls():
        if c.dest is not None and not c.dest["p"]:
            defs.setdefault(c.dest["l"], []).append(("call", c))
    n = 0
    for i, j, pl, rv, s in hs.assigns():
        if not (rv["k"] == "agg" and rv.get("agg") == "adt" and rv.get("adt") in SOCKET_ADTS):
            continue
        n += 1
        seen, todo, bad, src = set(), [op_local(o) for o in rv["ops"]], [], False
        while todo:
            l = todo.pop()
            if l is None or l in seen:
                continue
            seen.add(l)
            for kind, d in defs.get(l, []):
                if kind == "rv":
                    todo.extend(rv_locals(d))
                else:
                    nm = d.name()
                    if nm == "split":
                        src = True
                        continue
                    if nm not in _SOCKET_PASS:
                        bad.append(d)
                    todo.extend(op_local(a) for a in d.args)
        ctx.check(src and not bad, prefix + ".socket-pass-through", "handle_stream:socket-adapted:%s" % rv["variant"],
                  "the %s socket handed to the topic is the split stream itself, boxed (%s)" % (rv["variant"], ", ".join(sorted({strip_generics(c.callee) for c in bad})) or "no adapter in between"),
                  (bad[0].span if bad else s.get("span", hs.span)))
    ctx.check(n >= 4, prefix + ".socket-pass-through", "handle_stream:sockets-missing", "the four socket constructions of handle_stream were analysed (%d)" % n, hs.span)

