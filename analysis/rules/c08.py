"""C08 — a failing, slow or departed peer is dropped without harming the others."""
from .. import flow, panics
from ..facts import strip_generics, op_local
from . import routers, sweeps, common as K

EXPLANATION = (
    "(D1) FanoutMany x4 and Router x4 never propagate an element's error (no flow from the element call's result to the return value; all returns "
    "Ok/Ready(Ok)/Pending) and evict only the failing entry; (D2) sweep correctness — exactly one element handled per iteration path and the bound "
    "re-read after evictions (FanoutMany), retain closures evict only on Ready(Err) (Router); (D3) PollAI on both routers with every peer outcome "
    "including Err/None at every step: no reachable unwrap()/expect() on a failed result (K2), no reachable explicit panic in the router region (via "
    "C11.D2's enumeration), nothing dropped unflushed (K10); (D4) when the bound replier's stream ends the replier is unbound before the router "
    "moves on (K12) so that another can bind. What a real QUIC peer does and fairness are NOT decided. Also K6: no router poll can go round for ever without consuming anything (a spinning router serves nobody).")
ASSUMPTIONS = ["operation table of DESIGN §5; a boxed peer sink/stream may fail at any operation"]


def run(ctx):
    F = ctx.facts("quick")
    # a frame the decoder accepted from one peer but the encoder refuses towards the others turns every healthy subscriber into a
    # "failed" one (C05.D3 same quantity); ids handed out twice displace a healthy peer (counter rules)
    from . import c05, c11
    c05.d3(ctx, F)
    # a request that only the routing tag pushes over the limit is refused by the replier's encoder: that is not a failed replier
    c11.d6_tagged_request_fits(ctx, F)
    ex0, sd0, cfg0, me0 = routers.explore(F, "pubsub")
    sweeps.counter_keys(ctx, F, cfg0.body, ex0.h.routing, "C08.D3", {"stream": "next_stream_id", "sink": "next_sink_id"})
    for adt in (sweeps.FAN, sweeps.ROUTER):
        for m in sweeps.METHODS:
            sweeps.never_propagates_child_error(ctx, F, "C08.D1", adt, m)
    for m in sweeps.METHODS:
        sweeps.fanout_sweep(ctx, F, "C08.D2", m)
    for m in ("poll_ready", "poll_flush", "poll_close"):
        sweeps.router_retain(ctx, F, "C08.D2", m)
    bodies = [F.impl_method("futures_sink::Sink", sweeps.FAN, m) for m in sweeps.METHODS]
    sites = panics.analyse(ctx, bodies, "C08.D2.sweep-bound", include_alloc=False)
    ctx.floor("C08.D2.sweep-bound.bodies", len(bodies), 4)
    # Router::start_send: eviction of exactly the addressed entry on its error
    rs = F.impl_method("futures_sink::Sink", sweeps.ROUTER, "start_send")
    ctx.touch(rs)
    gm = [c for c in rs.calls() if strip_generics(c.callee) == "std::collections::hash::map::HashMap::get_mut" and "<K, V>" in c.full]
    rm = [c for c in rs.calls() if strip_generics(c.callee) == "std::collections::hash::map::HashMap::remove" and "<K, V>" in c.full]
    ok = len(gm) == 1 and len(rm) == 1 and flow.root_local(rs, gm[0].args[1]) == flow.root_local(rs, rm[0].args[1])
    ctx.check(ok, "C08.D1.evict-addressed", "router:start_send:evicts-other", "Router::start_send evicts exactly the entry it addressed when that entry's start_send fails", rs.span)
    for which in ("pubsub", "reqrep"):
        ex, sd, cfg = routers.report(ctx, F, which, "C08", lambda f: f.kind in ("K2", "K4", "K5", "K6", "K10", "K12", "K13", "K14"))
        ctx.floor("C08.%s.unwrap-sites-evaluated" % which, sum(1 for c in cfg.body.calls() if strip_generics(c.callee) in panics.UNWRAPS), 3)
        ctx.ok("C08.pollai", "%s router: every Option/Result unwrap evaluated path-sensitively in %d reachable (block,state) nodes with failing peers" % (which, len(ex.it.nodes)), cfg.body.span)
