"""C15 — mutual TLS configuration rules (the handshake outcome itself is rustls/webpki: trusted)."""
import os
import subprocess
from .. import flow, runner
from ..facts import strip_generics, op_local, rv_locals
from . import common as K

EXPLANATION = (
    "Configuration-level rules decided on the MIR of the whole workspace: (D1) the server's client verifier is AllowAnyAuthenticatedClient "
    "built from server_config's root-store parameter, which Server::try_from fills from load_root_store(args.cert.ca); (D2) the client "
    "configures with_root_certificates(options.root_store) and with_client_auth_cert(options.certs, options.key); RootCertStore values are "
    "created/mutated only inside the two load_root_store functions, which add only certificates derived from their parameter and reject an "
    "empty store; their callers pass the user's CA file, the baked-in CLOUD_CA, or args.cert.ca; the server name given to Endpoint::connect "
    "equals the SAN literal of the bundled generator; (D3) no permissive verifier API or local verifier impl anywhere; (D4) generator: CA is "
    "IsCa::Ca, server()/client() map to ServerAuth/ClientAuth, entity certs are signed by the CA passed in, the same CA goes to both output "
    "directories; (D5, thorough) compile_fail witnesses: connect() does not exist before CA and client certificate are configured. The "
    "outcome of a handshake for each identity pairing is NOT decided (rustls/webpki trusted).")
ASSUMPTIONS = ["rustls enforces what its configuration says (AllowAnyAuthenticatedClient requires a chain to the given roots)"]

STORE_MUT = ("rustls::anchors::RootCertStore::empty", "rustls::anchors::RootCertStore::add", "rustls::anchors::RootCertStore::add_parsable_certificates",
             "rustls::anchors::RootCertStore::add_server_trust_anchors", "rustls::anchors::RootCertStore::add_trust_anchors",
             "rustls::anchors::RootCertStore::extend")
DISALLOWED_SUBSTR = ("with_no_client_auth", "NoClientAuth", "AllowAnyAnonymousOrAuthenticatedClient", "::dangerous", "DangerousClientConfig",
                     "with_custom_certificate_verifier", "set_certificate_verifier", "danger::")
VERIFIER_TRAITS = ("rustls::verify::ServerCertVerifier", "rustls::verify::ClientCertVerifier", "rustls::client::ServerCertVerifier",
                   "rustls::server::ClientCertVerifier", "rustls::client::danger::ServerCertVerifier", "rustls::server::danger::ClientCertVerifier")


def nontest_bodies(F):
    return [b for p, b in sorted(F.bodies.items())]


def d1(ctx, F):
    sc0 = F.body("selium_server::quic::server_config")
    ctx.touch(sc0)
    sc = F.inlined(sc0)           # private helpers of server_config are looked through
    vs = [c for c in sc.calls() if c.name() == "with_client_cert_verifier"]
    ctx.floor("C15.D1.server-verifier.sites", len(vs), 1)
    for c in vs:
        r = flow.root(sc, c.args[1], through_calls=flow.ADAPTERS | {"alloc::sync::Arc::new"})
        ok = r[0] == "call" and strip_generics(r[1].callee) == "rustls::verify::AllowAnyAuthenticatedClient::new"
        ctx.check(ok, "C15.D1.server-verifier", "server:verifier-type", "the server's client-certificate verifier is an AllowAnyAuthenticatedClient (found %s)"
                  % (r[1].callee if r[0] == "call" else r[0]), c.span)
        if ok:
            rr = flow.root(sc, r[1].args[0])
            ctx.check(rr[0] == "arg" and rr[1] == 1, "C15.D1.server-verifier", "server:verifier-roots", "it is built from server_config's root_store parameter", r[1].span)
    # all callers of server_config pass load_root_store(args.cert.ca)
    callers = [c for c in F.callers_of("selium_server::quic::server_config")]
    ctx.floor("C15.D1.server-roots.callers", len(callers), 1)
    for c in callers:
        b = c.body
        ctx.touch(b)
        rr = flow.payload_source(b, c.args[0]) or flow.root(b, c.args[0])
        if rr[0] == "call" and strip_generics(rr[1].callee) == "core::ops::try_trait::Try::branch":
            rr = flow.root(b, rr[1].args[0])
        ok = rr[0] == "call" and strip_generics(rr[1].callee) == "selium_server::quic::load_root_store"
        ctx.check(ok, "C15.D1.server-roots", "server:roots-source", "the root store handed to server_config comes from load_root_store(..)", c.span)
        if ok:
            a = rr[1].args[0]
            r3 = flow.root(b, a)
            # args.cert.ca : a field path of the UserArgs parameter
            fld = r3[0] == "rv" and r3[1]["k"] == "use" and r3[1]["op"]["pl"]["l"] == 1
            names = []
            if fld:
                ua = F.adt("selium_server::args::UserArgs")
                proj = [e for e in r3[1]["op"]["pl"]["p"] if isinstance(e, int)]
                f0 = ua["variants"][0]["fields"][proj[0]]
                names.append(f0["name"])
                sub = F.adts.get(strip_generics(f0["ty"]))
                if sub and len(proj) > 1:
                    names.append(sub["variants"][0]["fields"][proj[1]]["name"])
            ctx.check(names == ["cert", "ca"], "C15.D1.server-roots", "server:roots-not-from-ca-arg", "load_root_store receives the --ca argument (args.cert.ca); found %s" % names, rr[1].span)


def store_rules(ctx, F):
    allowed = {"selium_server::quic::load_root_store", "selium::crypto::cert::load_root_store"}
    n = 0
    for b in nontest_bodies(F):
        for c in b.calls():
            s = strip_generics(c.callee)
            if s in STORE_MUT or (s.startswith("rustls::anchors::RootCertStore::") and c.name() not in ("is_empty", "len", "clone", "subjects", "roots")):
                n += 1
                ctx.check(b.path.split("::<")[0] in allowed or strip_generics(b.path) in allowed, "C15.D2.store-construction", "store-mutated:%s:%s" % (b.path, c.name()),
                          "RootCertStore::%s is called only inside load_root_store (in %s)" % (c.name(), b.path), c.span)
        for i, j, pl, rv, s in b.assigns():
            if rv["k"] == "agg" and rv.get("adt") == "rustls::anchors::RootCertStore":
                ctx.fail("C15.D2.store-construction", "store-literal:%s" % b.path, "RootCertStore built by a struct literal in %s" % b.path, s["span"])
    ctx.floor("C15.D2.store-construction.sites", n, 4)
    for p in sorted(allowed):
        b = F.bodies.get(p) or F.one_body("^" + p.replace("::", "::") + r"(::<.*>)?$")
        ctx.touch(b)
        adds = [c for c in b.calls() if c.name() in ("add_parsable_certificates", "add", "add_trust_anchors", "add_server_trust_anchors", "extend")]
        argv = flow.derived(b, {1}, calls="all")
        ctx.check(len(adds) == 1 and op_local(adds[0].args[1]) in argv, "C15.D2.store-content", "store-content:%s" % p,
                  "%s adds only certificates derived from its parameter" % p, (adds or [b])[0].span)
        ie = [c for c in b.calls() if c.name() == "is_empty" and "RootCertStore" in c.callee]
        okk = False
        for c in ie:
            for i, bl in enumerate(b.blocks):
                sc = flow.switch_condition(b, i)
                if sc and sc.get("kind") == "call" and sc["call"] is c:
                    edge = sc["false"] if sc.get("neg") else sc["true"]
                    other = sc["true"] if sc.get("neg") else sc["false"]
                    r = b.reachable(edge)
                    okk = not [1 for _, _, pl, rv, _ in K.aggregates(b, "core::result::Result", r - b.reachable(other)) if rv["variant"] == "Ok"] and \
                        not [1 for _, _, pl, rv, _ in K.aggregates(b, "core::result::Result", r) if rv["variant"] == "Ok" and pl["l"] == 0]
        ctx.check(okk, "C15.D2.store-nonempty", "store-empty-accepted:%s" % p, "%s refuses an empty store" % p, b.span)
    # callers of the client's load_root_store
    callers = F.callers_of("selium::crypto::cert::load_root_store")
    ctx.floor("C15.D2.client-roots.callers", len(callers), 2)
    for c in callers:
        b = c.body
        ctx.touch(b)
        srcs = set()
        tainted_by = {}
        for c2 in b.calls():
            if c2.dest is None:
                continue
            n2 = strip_generics(c2.callee)
            if n2 == "selium::crypto::cert::load_certs":
                tainted_by["load_certs(param)"] = flow.derived(b, {c2.dest["l"]}, calls="all")
        for i, j, pl, rv, s in b.assigns():
            for o in ([rv.get("op")] if rv["k"] in ("use", "cast") else rv.get("ops", [])):
                if o and o.get("k") == "const" and o.get("item") == "selium::constants::CLOUD_CA":
                    tainted_by["CLOUD_CA"] = flow.derived(b, {pl["l"]}, calls="all")
        for c2 in b.calls():
            for a in c2.args:
                if a.get("k") == "const" and a.get("item") == "selium::constants::CLOUD_CA" and c2.dest:
                    tainted_by["CLOUD_CA"] = flow.derived(b, {c2.dest["l"]}, calls="all")
        al = op_local(c.args[0])
        src = [k for k, v in tainted_by.items() if al in v]
        ctx.check(len(src) == 1, "C15.D2.client-roots", "client-roots-source:%s" % b.path,
                  "in %s the trusted roots come from %s" % (b.path, src or "an unrecognised source"), c.span)


def loaders_fresh(ctx, F):
    """certificate / key loaders are pure functions of the file's *current* content: fs::read on every Ok path, no static / cached state"""
    names = []
    for p, b in sorted(F.bodies.items()):
        base = p.split("::<")[0]
        if base in ("selium::crypto::cert::load_certs", "selium::crypto::cert::load_key", "selium::crypto::cert::load_root_store", "selium::crypto::cert::load_keypair",
                    "selium_server::quic::load_certs", "selium_server::quic::load_key", "selium_server::quic::load_root_store", "selium_server::quic::read_certs") and "{closure" not in p:
            names.append(b)
    ctx.floor("C15.D2.loaders-fresh.functions", len(names), 8)
    for b in names:
        ctx.touch(b)
        region = F.region([b])
        stat = []
        for rb in region.values():
            for i, j, pl, rv, s in rb.assigns():
                for o in ([rv.get("op")] if rv["k"] in ("use", "cast") else rv.get("ops", [])):
                    if o and o.get("k") == "const" and "static" in o:
                        stat.append(o["static"])
            for c in rb.calls():
                n = strip_generics(c.callee)
                if any(x in n for x in ("LocalKey", "OnceLock", "OnceCell", "once_cell", "lazy_static", "LazyLock", "thread_local")):
                    stat.append(n)
                for a in c.args:
                    if a.get("k") == "const" and "static" in a:
                        stat.append(a["static"])
        ctx.check(not stat, "C15.D2.loaders-fresh", "loader-cached-state:%s" % b.path.split("::<")[0], "%s keeps no static / cached state (%s)" % (b.path.split("::<")[0], stat or "none"), b.span)
        if b.name in ("load_certs", "load_key"):
            rd = [c for c in b.calls() if strip_generics(c.callee) == "std::fs::read"]
            oks = [i for i, j, pl, rv, s in K.aggregates(b, "core::result::Result") if rv["variant"] == "Ok" and pl["l"] == 0]
            ok = bool(rd) and bool(oks) and all(any(b.dominates(c.bb, o) for c in rd) for o in oks)
            ctx.check(ok, "C15.D2.loaders-fresh", "loader-skips-read:%s" % b.path.split("::<")[0], "%s reads the file on every successful path" % b.path.split("::<")[0], b.span)


def d2(ctx, F):
    loaders_fresh(ctx, F)
    cc = F.body("selium::connection::configure_client")
    ctx.touch(cc)
    co = F.adt("selium::connection::ConnectionOptions")
    fields = [f["name"] for f in co["variants"][0]["fields"]]

    def opt_field(op):
        r = flow.root(cc, op)
        if r[0] == "rv" and r[1]["k"] == "use" and r[1]["op"]["pl"]["l"] == 1:
            proj = [e for e in r[1]["op"]["pl"]["p"] if isinstance(e, int)]
            if proj:
                return fields[proj[0]]
        if op.get("k") in ("move", "copy") and op["pl"]["l"] == 1 and op["pl"]["p"]:
            proj = [e for e in op["pl"]["p"] if isinstance(e, int)]
            return fields[proj[0]] if proj else None
        return None
    wr = [c for c in cc.calls() if c.name() == "with_root_certificates"]
    wc = [c for c in cc.calls() if c.name() == "with_client_auth_cert"]
    ctx.floor("C15.D2.client-config.sites", len(wr) + len(wc), 2)
    for c in wr:
        ctx.check(opt_field(c.args[1]) == "root_store", "C15.D2.client-config", "client:roots-not-options", "with_root_certificates receives options.root_store", c.span)
    for c in wc:
        ctx.check(opt_field(c.args[1]) == "certs" and opt_field(c.args[2]) == "key", "C15.D2.client-config", "client:auth-cert-not-options",
                  "with_client_auth_cert receives options.certs / options.key", c.span)
    # ConnectionOptions is built only by ::new, which maps parameters to the same-named fields
    for b in nontest_bodies(F):
        for i, j, pl, rv, s in b.assigns():
            if rv["k"] == "agg" and rv.get("adt") == "selium::connection::ConnectionOptions":
                if b.path in F.derived_bodies():
                    continue      # #[derive(Clone)] copies field by field
                if not ctx.check(b.path == "selium::connection::ConnectionOptions::new", "C15.D2.options-construction", "options-literal:%s" % b.path,
                                 "ConnectionOptions is built only by ConnectionOptions::new", s["span"]):
                    continue
                r = flow.root(b, rv["ops"][fields.index("root_store")])
                ctx.check(r[0] == "arg" and r[1] == 3, "C15.D2.options-construction", "options-roots-param", "ConnectionOptions::new stores its root_store parameter", s["span"])
    store_rules(ctx, F)
    # server name == generator SAN
    ce = F.one_body(r"^selium::connection::connect_to_endpoint::\{closure#0\}$")
    ctx.touch(ce)
    conn = [c for c in ce.calls() if strip_generics(c.callee) == "quinn::endpoint::Endpoint::connect"]
    ent = F.body("selium_tools::commands::gen_certs::certificate_builder::CertificateBuilder::entity")
    ctx.touch(ent)
    sans = []
    for i, j, pl, rv, s in ent.assigns():
        if rv["k"] == "agg" and rv.get("adt") == "rcgen::SanType":
            r = flow.root(ent, rv["ops"][0])
            sans.append((rv["variant"], flow.const_of(r[1]) if r[0] == "const" else None))
    ctx.floor("C15.D2.server-name.sites", len(conn), 1)
    # every connection attempt uses *this* call's TLS configuration: on every path to Endpoint::connect the endpoint has been given the
    # `config` parameter (set_default_client_config / connect_with); an endpoint cached across calls would keep the first caller's
    # trust anchors and identity for every later client in the process
    cei = F.inlined(ce, only=("selium::connection",))
    conn_i = [c for c in cei.calls() if strip_generics(c.callee) in ("quinn::endpoint::Endpoint::connect", "quinn::endpoint::Endpoint::connect_with")]
    cfgv = flow.derived(cei, {l["id"] for l in cei.locals if l["id"] <= cei.nargs or l.get("upvar") is not None} |
                        {pl["l"] for i, j, pl, rv, s in cei.assigns() if rv["k"] == "use" and rv["op"].get("k") in ("copy", "move") and rv["op"]["pl"]["l"] == 1 and rv["op"]["pl"]["p"]}, calls="adapters")
    sets = [c for c in cei.calls() if strip_generics(c.callee) == "quinn::endpoint::Endpoint::set_default_client_config" and len(c.args) > 1 and
            "ClientConfig" in (c.arg_tys[1] if len(c.arg_tys) > 1 else "") and op_local(c.args[1]) in cfgv]
    for c in conn_i:
        if strip_generics(c.callee).endswith("connect_with"):
            okc = op_local(c.args[1]) in cfgv
        else:
            okc = bool(sets) and c.bb not in flow.reach_avoiding(cei, [0], [x.bb for x in sets])
        ctx.check(okc, "C15.D2.config-per-connection", "connect:config-not-installed",
                  "every path to Endpoint::connect installs this call's ClientConfig on the endpoint first (no endpoint reused with an earlier caller's configuration)", c.span)
    stat = [strip_generics(c.callee) for c in cei.calls() if any(x in strip_generics(c.callee) for x in ("OnceLock", "OnceCell", "LazyLock", "LocalKey", "lazy_static"))]
    if all(strip_generics(c.callee).endswith("connect_with") for c in conn_i) and conn_i:
        stat = []          # a shared endpoint is fine when every connection passes its own configuration explicitly
    # every connection authenticates from scratch: no TLS state outlives the client that produced it. A process-wide session-ticket
    # store (keyed by server name only) lets a later, differently configured client resume an earlier client's session — neither side
    # then looks at a certificate
    shared = sorted(p_ for p_, c_ in F.consts.items() if c_.get("kind") == "static" and p_.startswith(("selium::connection", "selium::crypto", "selium::client")) and
                    "__CALLSITE" not in p_ and any(x in (c_.get("ty") or "") for x in ("rustls", "quinn", "OnceLock", "OnceCell", "Lazy", "Mutex", "RwLock", "Arc<")))
    resum = sorted({strip_generics(c.callee) for p_, b_ in F.bodies.items() if b_.crate == "selium" for c in b_.calls()
                    if any(x in strip_generics(c.callee) for x in ("Resumption", "ClientSessionMemoryCache", "ClientSessionStore", "session_storage"))})
    ctx.check(not shared and not resum, "C15.D2.config-per-connection", "client:shared-tls-state",
              "the client keeps no process-wide TLS state and does not customise session resumption (statics: %s; calls: %s)" % (shared or "none", resum or "none"), ce.span)
    # a reconnect authenticates the same way the first connection did: it re-uses the configuration built from what the caller supplied and
    # reads no certificate / key / CA file again (a file replaced on disk must not change whom a running client trusts)
    rc = F.bodies.get("selium::connection::ClientConnection::reconnect")
    if rc is not None:
        reg = F.region([rc])
        reread = sorted(p_ for p_ in reg if p_.startswith("selium::crypto::") or "load_root_store" in p_ or "load_certs" in p_ or "load_key" in p_)
        fs = sorted({strip_generics(c.callee) for b_ in reg.values() for c in b_.calls() if strip_generics(c.callee).startswith(("std::fs::", "tokio::fs::"))})
        ctx.check(not reread and not fs, "C15.D2.config-per-connection", "reconnect:rereads-trust-material",
                  "ClientConnection::reconnect re-uses the configuration the connection was created with (no certificate loader, no file access: %s)" % ((reread + fs) or "none"), rc.span)
    ctx.check(not stat, "C15.D2.config-per-connection", "connect:cached-endpoint", "connect_to_endpoint keeps no process-wide endpoint (%s)" % (stat or "none"), ce.span)
    for c in conn:
        name = flow.const_of(c.args[2])
        if name is None:
            r = flow.root(ce, c.args[2])
            name = flow.const_of(r[1]) if r[0] == "const" else None
        ctx.check(name is not None and sans == [("DnsName", name)], "C15.D2.server-name", "server-name-vs-san",
                  "the client verifies the server as %r; the generator's entity certificates carry SAN %s" % (name, sans), c.span)


def d3(ctx, F):
    n = 0
    for b in nontest_bodies(F):
        for c in b.calls():
            n += 1
            full = c.callee + " " + c.full
            for bad in DISALLOWED_SUBSTR:
                if bad in full:
                    ctx.fail("C15.D3.nothing-permissive", "permissive:%s:%s" % (b.path, bad), "permissive TLS API `%s` used in %s" % (bad, b.path), c.span)
        for l in b.locals:
            for bad in ("NoClientAuth", "AllowAnyAnonymousOrAuthenticatedClient"):
                if bad in l["ty"]:
                    ctx.fail("C15.D3.nothing-permissive", "permissive-type:%s:%s" % (b.path, bad), "permissive verifier type `%s` in %s" % (bad, b.path), b.span)
    for im in F.impls:
        if im.get("trait") in VERIFIER_TRAITS or (im.get("trait") or "").endswith(("ServerCertVerifier", "ClientCertVerifier")):
            ctx.fail("C15.D3.nothing-permissive", "local-verifier:%s" % im["self"], "local implementation of %s for %s" % (im["trait"], im["self"]), im["span"])
    ctx.floor("C15.D3.nothing-permissive.calls-scanned", n, 2000)
    ctx.ok("C15.D3.nothing-permissive", "no permissive verifier API, type or local verifier impl among %d call sites / %d impls" % (n, len(F.impls)))


def d4(ctx, F):
    P = "selium_tools::commands::gen_certs::"
    ca = F.body(P + "certificate_builder::CertificateBuilder::ca")
    ctx.touch(ca)
    isca = [rv for i, j, pl, rv, s in ca.assigns() if rv["k"] == "agg" and rv.get("adt") == "rcgen::IsCa"]
    ctx.check(len(isca) == 1 and isca[0]["variant"] == "Ca", "C15.D4.ca-is-ca", "gen:ca-not-ca", "CertificateBuilder::ca() marks the certificate as a CA", ca.span)
    for fn, want in (("server", "ServerAuth"), ("client", "ClientAuth")):
        b = F.body(P + "certificate_builder::CertificateBuilder::" + fn)
        ctx.touch(b)
        ek = [rv["variant"] for i, j, pl, rv, s in b.assigns() if rv["k"] == "agg" and rv.get("adt") == "rcgen::ExtendedKeyUsagePurpose"]
        ent = b.calls_to(P + "certificate_builder::CertificateBuilder::entity")
        ctx.check(ek == [want] and len(ent) == 1, "C15.D4.roles", "gen:role:%s" % fn, "CertificateBuilder::%s() requests extended key usage %s (found %s)" % (fn, want, ek), b.span)
    ent = F.body(P + "certificate_builder::CertificateBuilder::entity")
    pushes = [c for c in ent.calls() if c.name() == "push" and "ExtendedKeyUsagePurpose" in c.full]
    ctx.check(len(pushes) == 1 and flow.root(ent, pushes[0].args[1])[0] == "arg", "C15.D4.roles", "gen:entity-purpose", "entity() installs the purpose it is given", ent.span)
    kp = F.body(P + "key_pair::KeyPair::build")
    ctx.touch(kp)
    sg = [c for c in kp.calls() if c.name() == "serialize_der_with_signer"]
    oks = False
    if len(sg) == 1:
        r = flow.root(kp, sg[0].args[1])
        oks = r[0] == "arg" and r[1] == 2
    self_signed = [c for c in kp.calls() if c.name() in ("serialize_der", "serialize_pem")]
    ctx.check(oks and not self_signed, "C15.D4.signed-by-ca", "gen:not-signed-by-ca", "entity certificates are serialised with the CA passed in as signer (not self-signed)", kp.span)
    for fn, role in (("client", "client"), ("server", "server")):
        b = F.body(P + "key_pair::KeyPair::" + fn)
        ctx.touch(b)
        c1 = b.calls_to(P + "certificate_builder::CertificateBuilder::" + role)
        c2 = b.calls_to(P + "key_pair::KeyPair::build")
        ok = len(c1) == 1 and len(c2) == 1 and flow.root_local(b, c2[0].args[0]) == c1[0].dest["l"] and flow.root(b, c2[0].args[1])[0] == "arg"
        ctx.check(ok, "C15.D4.roles", "gen:keypair:%s" % fn, "KeyPair::%s builds a %s certificate signed by its ca parameter" % (fn, role), b.span)
    gen = F.body(P + "cert_gen::CertGen::generate")
    ctx.touch(gen)
    # helpers that build the CA are looked through; the KeyPair constructors stay calls
    CB = P + "certificate_builder::CertificateBuilder::"
    keepfns = [P + "key_pair::KeyPair::client", P + "key_pair::KeyPair::server"] + [p_ for p_ in F.bodies if p_.startswith(CB)]
    gi = F.inlined(gen, keep=keepfns)
    cac = gi.calls_to(CB + "ca")
    cl = gi.calls_to(P + "key_pair::KeyPair::client")
    sv = gi.calls_to(P + "key_pair::KeyPair::server")
    ok = len(cac) == 1 and len(cl) == 1 and len(sv) == 1
    if ok:
        builder_calls = {strip_generics(c.callee) for c in gi.calls() if strip_generics(c.callee).startswith(CB)}
        cav = flow.derived(gi, {cac[0].dest["l"]}, calls=builder_calls | {"core::ops::try_trait::Try::branch"})
        ok = op_local(cl[0].args[0]) in cav and op_local(sv[0].args[0]) in cav
        der = [c for c in gi.calls() if c.name() == "serialize_der" and op_local(c.args[0]) in cav]
        ok = ok and len(der) == 1 and len([c for c in gi.calls() if c.name() == "serialize_der"]) == 1
    ctx.check(ok, "C15.D4.same-ca", "gen:different-cas", "client and server certificates are signed by the one generated CA, whose DER is what gets published", gen.span)
    out = F.body(P + "cert_gen::CertGen::output")
    ctx.touch(out)
    # private helpers (write_to_filesystem / write_file, whatever they are called) are looked through: what matters is which bytes reach
    # `write_all` for each output directory
    oi = F.inlined(out, only=(P,))
    cg = F.adt(P + "cert_gen::CertGen")
    caidx = [f["name"] for f in cg["variants"][0]["fields"]].index("ca")
    wr = [c for c in oi.calls() if strip_generics(c.callee) == "std::io::Write::write_all"]
    ca_written = 0
    for c in wr:
        r = flow.root(oi, c.args[1], through_calls=flow.ADAPTERS | {"alloc::vec::Vec::as_slice", "core::ops::deref::Deref::deref"})
        pl = None
        if r[0] == "rv" and r[1]["k"] == "ref":
            pl = r[1]["pl"]
        elif r[0] == "rv" and r[1]["k"] == "use" and r[1]["op"].get("k") in ("copy", "move"):
            pl = r[1]["op"]["pl"]
        if pl is not None and (pl["l"] == 1 or flow.root_local(oi, pl["l"]) == 1) and [e for e in pl["p"] if isinstance(e, int)] == [caidx]:
            ca_written += 1
    # validity windows: ValidityRange::new(days) is symmetric (not_before = now - days). webpki refuses any date before 1970, so the number
    # of days any caller passes must keep not_before representable — at most 50 years back; `--no-expiry` keeps rcgen's default window
    # by not calling valid_for_days at all
    days_ok = True
    seen_days = []
    for p_, b_ in sorted(F.bodies.items()):
        if not p_.lstrip("<").startswith(P) or "{closure" in p_:
            continue
        ib_ = F.inlined(b_, depth=5, only=(P,), keep=[CB + "valid_for_days"])
        for c in ib_.calls():
            if strip_generics(c.callee) == CB + "valid_for_days" and len(c.args) > 1:
                r = flow.root(ib_, c.args[1])
                vals = []
                if r[0] == "const":
                    vals = [flow.const_of(r[1])]
                elif r[0] == "multi":
                    for d_ in ib_.defs().get(r[1], []):
                        if d_[0] == "assign" and d_[3]["k"] == "use":
                            vals.append(flow.const_of(d_[3]["op"]))
                        else:
                            vals.append(None)
                elif r[0] == "arg" or (r[0] == "rv" and len(r) > 4 and r[1]["k"] == "use" and r[1]["op"].get("k") in ("copy", "move") and
                                        flow.root(ib_, {"k": "copy", "pl": {"l": r[1]["op"]["pl"]["l"], "p": []}})[0] == "arg"):
                    vals = []          # handed in by the caller (or inside an enum the caller built): decided where the value is made
                else:
                    vals = [None]
                seen_days += vals
    days_ok = bool(seen_days) and all(isinstance(v, int) and 0 < v <= 18250 for v in seen_days)
    ctx.check(days_ok, "C15.D4.validity-representable", "gen:validity-days", "every validity window requested from the symmetric ValidityRange keeps not_before after 1970 (days passed: %s)" % sorted(set(map(str, seen_days))), out.span)
    # every output file is (re)created empty: File::create, or OpenOptions with truncate(true) — otherwise a re-run leaves the tail of a
    # longer earlier file behind and the DER no longer parses
    trunc_ok = True
    opens = [c for c in oi.calls() if strip_generics(c.callee) in ("std::fs::OpenOptions::open", "std::fs::File::options")]
    creates = [c for c in oi.calls() if strip_generics(c.callee) == "std::fs::File::create"]
    if opens:
        tr = [c for c in oi.calls() if strip_generics(c.callee) == "std::fs::OpenOptions::truncate" and flow.const_of(c.args[1]) is True]
        trunc_ok = bool(tr) and all(any(oi.dominates(t.bb, o.bb) for t in tr) for o in opens if strip_generics(o.callee).endswith("::open"))
    ctx.check(trunc_ok and (bool(creates) or bool(opens)), "C15.D4.files-truncated", "gen:file-not-truncated",
              "the generator truncates each output file it writes (File::create or OpenOptions::truncate(true))", out.span)
    exact = len(wr) == 6 and ca_written == 2
    how = "%d writes, %d of the CA" % (len(wr), ca_written)
    if not exact and wr and flow.loops(oi):
        # table-driven form: the files / directories are listed in arrays and written in loops. Decided flow-insensitively: the bytes of
        # self.ca, of both key pairs' certificate and key, and both output paths all reach the one write site
        names = [f["name"] for f in cg["variants"][0]["fields"]]
        def reads(field_idx, sub=None):
            out_ = set()
            for i, j, pl, rv, s in oi.assigns():
                p_ = rv["pl"] if rv["k"] == "ref" else (rv["op"]["pl"] if rv["k"] == "use" and rv["op"].get("k") in ("copy", "move") else None)
                if p_ is not None and (p_["l"] == 1 or flow.root_local(oi, p_["l"]) == 1) and [e for e in p_["p"] if isinstance(e, int)][:1] == [field_idx]:
                    out_.add(pl["l"])
            return out_
        srcs = {"ca": reads(caidx), "client": reads(names.index("client")), "server": reads(names.index("server"))}
        data_ok = all(v and any(op_local(c.args[1]) in flow.derived(oi, v, calls="all") for c in wr) for v in srcs.values())
        creates_ = [c for c in oi.calls() if strip_generics(c.callee) in ("std::fs::File::create", "std::fs::OpenOptions::open")]
        paths_ok = bool(creates_) and all(any(op_local(a) in flow.derived(oi, {k_}, calls="all") for c in creates_ for a in c.args) for k_ in (2, 3))
        exact = data_ok and paths_ok
        how = "table-driven: CA / client pair / server pair reach the write site: %s; both output paths reach file creation: %s" % (data_ok, paths_ok)
    ctx.check(exact, "C15.D4.same-ca", "gen:ca-file",
              "each of the two output directories receives self.ca (the one shared CA) plus its key pair (%s)" % how, out.span)


def d5(ctx):
    """compile_fail witnesses (thorough tier only)"""
    wdir = os.path.join(runner.VERIF, "witnesses")
    if not os.path.isdir(wdir):
        ctx.note("witness crate not present")
        return
    import shutil
    shutil.copy(os.path.join(runner.REPO, "Cargo.lock"), os.path.join(wdir, "Cargo.lock"))
    env = dict(os.environ, CARGO_NET_OFFLINE="true", CARGO_TARGET_DIR=os.path.join(runner.CACHE, "target-witness"), SELIUM_CLIENT_PATH=os.path.join(runner.REPO, "client"))
    r = subprocess.run(["cargo", "+nightly", "test", "--doc", "--offline"], cwd=wdir, env=env, capture_output=True, text=True)
    out = r.stdout + r.stderr
    import re
    res = re.findall(r"test (\S+) - (\S+) \(line \d+\)( - compile fail| - compile)? \.\.\. (\w+)", out)
    ctx.extra["witness_output_tail"] = out[-1500:]
    ctx.floor("C15.D5.witnesses", len(res), 8)
    for f, item, cf, verdict in res:
        ctx.check(verdict == "ok", "C15.D5.witnesses", "witness:%s:%s" % (item, "compile_fail" if cf.strip() == "- compile fail" else "twin"),
                  "%s witness %s%s: %s" % (f, item, " (must not compile)" if cf.strip() == "- compile fail" else " (compiling twin)", verdict))
    if r.returncode != 0 and not res:
        ctx.fail("C15.D5.witnesses", "witness-crate-broken", "the witness crate did not build/run: " + out[-800:])


def run(ctx):
    F = ctx.facts("quick")
    d1(ctx, F)
    d2(ctx, F)
    d3(ctx, F)
    d4(ctx, F)
    if ctx.tier == "thorough":
        d5(ctx)
        # who-may-call over every target of the workspace (examples, integration tests, benches) and every feature
        for cfg in ("alltargets", "allfeatures"):
            FF = ctx.facts(cfg)
            n = 0
            for b in list(FF.bodies.values()) + list(FF.test_bodies.values()):
                for c in b.calls():
                    n += 1
                    full = c.callee + " " + c.full
                    for bad in DISALLOWED_SUBSTR:
                        if bad in full:
                            ctx.fail("C15.D3.nothing-permissive", "permissive[%s]:%s:%s" % (cfg, b.path, bad), "permissive TLS API `%s` used in %s (%s build)" % (bad, b.path, cfg), c.span)
            ctx.floor("C15.D3.nothing-permissive.calls-scanned[%s]" % cfg, n, 2000)
            ctx.ok("C15.D3.nothing-permissive", "%s build: no permissive verifier API among %d call sites (incl. examples/tests/benches)" % (cfg, n))
