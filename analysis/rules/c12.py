"""C12 — streams re-establish themselves after connection loss, within the retry budget."""
from .. import flow
from ..facts import strip_generics, op_local, rv_locals
from . import common as K

EXPLANATION = (
    "Structural conditions decided on the client's MIR: (D1) retry budget per outage — the BackoffStrategy iterator consumed by a reconnect "
    "episode is created inside that episode (in try_reconnect before its retry loop, or in the caller's loop), never once per listen()/request() "
    "call; pub/sub creates its ReconnectState only on the Connected->Disconnected edge and returns to Connected on success; (D2) an exhausted "
    "iterator surfaces TooManyRetries (no further attempt), an unrecoverable error is returned without another attempt, Exhausted arms of the "
    "pub/sub wrappers report the error, the recoverable-error classification table is the frozen one; (D3) every Requestor::split_stream is "
    "followed by a reader task on the new read half; (D4) on_reconnect installs the new stream, reestablish_connection reconnects then "
    "re-registers with the stream's own headers, ClientConnection::reconnect reconnects only when the old connection is closed. Delivery after a "
    "real reconnect, attempt counts actually made and timing are NOT decided.")
ASSUMPTIONS = ["quinn's close_reason() is Some exactly when the connection is closed",
               "quinn converts ReadError/WriteError ConnectionLost and ClosedStream to io::ErrorKind::NotConnected and Reset/Stopped to ConnectionReset; "
               "std::io::ErrorKind discriminants 3 = ConnectionReset, 7 = NotConnected on the pinned toolchain"]

KA = "selium::keep_alive::"
ITER_NEXT = "core::iter::traits::iterator::Iterator::next"
INTO_ITER = "core::iter::traits::collect::IntoIterator::into_iter"
TRAIT = "selium::traits::keep_alive::KeepAliveStream"


def inl(F, b):
    """`b` with the private (sync and async) helpers of its own module looked through; the vocabulary the rules speak in — back-off
    iterator, ConnectionStatus constructors, error classification, logging — stays as calls"""
    keep = [p for p in F.bodies if p.startswith((KA + "backoff_strategy", KA + "connection_status", KA + "helpers", "<" + KA + "backoff_strategy", "selium::logging",
                                                 "selium::connection", "selium::streams"))
            or ("backoff_strategy" in p and p.startswith("<"))]
    # of the connection-status module only the constructors are vocabulary; accessor-style methods (next_attempt, poll_attempt ..) that
    # wrap a field of the reconnect state are looked through
    keep = [p for p in keep if not ("connection_status" in p and p.split("::{")[0].rsplit("::", 1)[-1] not in ("disconnected", "from", "new", "default", "into"))]
    return F.inlined(b, keep=keep)


def is_budget_creation(c):
    n = strip_generics(c.callee)
    return (n == INTO_ITER and "BackoffStrategy" in c.self_ty) or n in (KA + "connection_status::ConnectionStatus::disconnected",)


def loop_of(body, bb):
    for l in flow.loops(body):
        if bb in l:
            return l
    return None


def d1(ctx, F):
    tr = F.one_body(r"^selium::keep_alive::reqrep::KeepAlive::<T>::try_reconnect::\{closure#0\}$")
    ctx.touch(tr)
    tr = inl(F, tr)          # (async) helpers of the retry loop are looked through
    nexts = [c for c in tr.calls() if strip_generics(c.callee) == ITER_NEXT and "BackoffStrategyIter" in c.self_ty]
    ctx.floor("C12.D1.budget.consumers", len(nexts), 1)
    inner = [c for c in tr.calls() if is_budget_creation(c)]
    inner_ok = False
    for c in inner:
        lp = loop_of(tr, nexts[0].bb) if nexts else None
        if nexts and tr.dominates(c.bb, nexts[0].bb) and (lp is None or c.bb not in lp):
            av = flow.derived(tr, {c.dest["l"]}, calls="adapters")
            if op_local(nexts[0].args[0]) in av:
                inner_ok = True
    # callers
    callers = [c for c in F.callers_of(KA + "reqrep::KeepAlive::try_reconnect")]
    ctx.floor("C12.D1.budget.episodes", len(callers), 2)
    for c in callers:
        b = c.body
        ctx.touch(b)
        short = b.path.split("KeepAlive::<")[-1][:60]
        if inner_ok:
            ctx.ok("C12.D1.budget", "reconnect episode started in %s draws a fresh budget inside try_reconnect" % b.path, c.span)
            continue
        # budget passed in: must be created inside the caller's loop
        created = [x for x in b.calls() if is_budget_creation(x)]
        lp = loop_of(b, c.bb)
        ok = False
        for x in created:
            av = flow.derived(b, {x.dest["l"]}, calls="adapters")
            feeds = any(op_local(a) in av for a in c.args)
            if feeds and lp is not None and x.bb in lp:
                ok = True
            if feeds and lp is None:
                ok = True      # not in a loop: one episode per call
        who = "listen" if "Replier" in b.path else ("request" if "Requestor" in b.path else b.path)
        ctx.check(ok, "C12.D1.budget", "budget-per-call:%s" % who,
                  "every outage handled by %s gets a fresh retry budget (iterator created inside the retry loop or inside try_reconnect), not one per call" % who, c.span)
    # pub/sub
    od = F.body(KA + "pubsub::KeepAlive::<T>::on_disconnect")
    ctx.touch(od)
    od = inl(F, od)
    cr = [c for c in od.calls() if is_budget_creation(c)]
    sws = K.find_variant_switches(od, KA + "connection_status::ConnectionStatus")
    ok = False
    if len(cr) == 1 and sws:
        for sw in sws:
            arms, adt, pl, other, allv = K.arm_map(od, sw)
            # `if let Connected = self.status`: creation only in the Connected arm
            if "Connected" in arms and cr[0].bb in arms["Connected"]:
                ok = True
            v = flow.switch_on_variant(od, sw)
    ctx.check(ok, "C12.D1.budget-pubsub", "pubsub:budget-not-on-edge", "pub/sub creates its retry budget exactly on the Connected -> Disconnected edge", (cr or [od])[0].span)
    pr = F.body(KA + "pubsub::KeepAlive::<T>::poll_reconnect")
    ctx.touch(pr)
    # Ready(Ok(stream)) arm resets status to Connected and installs the stream
    setc = [(i, s) for i, j, pl, rv, s in pr.assigns() if rv["k"] == "agg" and rv.get("adt") == KA + "connection_status::ConnectionStatus" and rv["variant"] == "Connected"]
    onr = [c for c in pr.calls() if strip_generics(c.callee) == TRAIT + "::on_reconnect"]
    ctx.check(len(setc) >= 1 and len(onr) == 1 and (pr.dominates(setc[0][0], onr[0].bb) or pr.dominates(onr[0].bb, setc[0][0])), "C12.D1.budget-pubsub", "pubsub:no-return-to-connected",
              "a successful pub/sub reconnect returns to Connected (so the next outage draws a new budget) and installs the new stream", (onr or [pr])[0].span)


def none_arm(body, call):
    """blocks exclusive to the None outcome of an Option-returning call"""
    r = flow.switch_after_call(body, call, want_bb=True)
    if not r or "None" not in r[0]:
        return None, None
    m, sbb = r
    regs = K.exclusive_regions(body, list(m.values()), sbb)
    return regs[m["None"]], m


def classification_only(ctx, F):
    # classification table
    ire = F.body(KA + "helpers::is_recoverable_error")
    ctx.touch(ire)
    sws = K.find_variant_switches(ire, "selium_std::errors::SeliumError")
    table = {}
    if sws:
        arms, adt, pl, other, allv = K.arm_map(ire, sws[0])
        def arm_val(blocks):
            cs = [c.name() for c in K.calls_in(ire, blocks)]
            consts = [flow.const_of(rv["op"]) for i, j, pl2, rv, s in K.assigns_in(ire, blocks) if pl2["l"] == 0 and rv["k"] == "use" and flow.const_of(rv["op"]) is not None]
            return tuple(sorted(cs)), tuple(sorted(set(consts)))
        for v, blocks in arms.items():
            table[v] = arm_val(blocks)
        table["_"] = arm_val(other)
    expect = {"IoError": (("is_disconnect_error",), ()), "OpenStream": (("is_bind_error",), ())}
    # the fall-through (`_ =>`) and the non-ConnectionError Quic errors must yield false
    def consts_from(bb):
        r = ire.reachable(bb)
        return {flow.const_of(rv["op"]) for i, j, pl2, rv, s in ire.assigns() if i in r and pl2["l"] == 0 and rv["k"] == "use" and flow.const_of(rv["op"]) is not None}, \
            [c.name() for c in ire.calls() if c.bb in r]
    dflt = consts_from(ire.term(sws[0])["otherwise"]) if sws else (set(), ["?"])
    quic_ok = False
    if sws:
        v = flow.switch_on_variant(ire, sws[0])
        qt = v[2].get("Quic")
        if qt is not None:
            for qs in K.find_variant_switches(ire, "selium_std::errors::QuicError"):
                qv = flow.switch_on_variant(ire, qs)
                only_conn = set(qv[2]) == {"ConnectionError"}
                yes = consts_from(qv[2]["ConnectionError"]) if only_conn else (set(), [])
                no = consts_from(qv[3])
                quic_ok = only_conn and yes == ({True}, []) and no == ({False}, [])
    ok = all(table.get(k) == v for k, v in expect.items()) and quic_ok and dflt == ({False}, []) and set(table) <= {"IoError", "OpenStream", "Quic", "_"}
    ctx.check(ok, "C12.D2.classification", "recoverable-table", "is_recoverable_error classifies exactly: IoError->is_disconnect_error, Quic(ConnectionError)->true, "
              "OpenStream->is_bind_error, everything else->false (found %s, default %s)" % (table, dflt), ire.span)


def d2(ctx, F):
    tr = inl(F, F.one_body(r"^selium::keep_alive::reqrep::KeepAlive::<T>::try_reconnect::\{closure#0\}$"))
    nexts = [c for c in tr.calls() if strip_generics(c.callee) == ITER_NEXT and "BackoffStrategyIter" in c.self_ty]
    for c in nexts:
        arm, m = none_arm(tr, c)
        ok = False
        if arm is not None:
            errs = [rv["variant"] for i, j, pl, rv, s in K.aggregates(tr, "selium_std::errors::QuicError", arm)]
            back = c.bb in flow.reach_avoiding(tr, [m["None"]], flow.infeasible_continue_blocks(tr))
            ok = errs == ["TooManyRetries"] and not back
        ctx.check(ok, "C12.D2.exhaustion", "reqrep:exhaustion", "an exhausted budget makes try_reconnect return TooManyRetries without another attempt", c.span)
    # unrecoverable error: no further attempt
    for b in [tr] + [c.body for c in F.callers_of(KA + "reqrep::KeepAlive::try_reconnect")]:
        rec = b.calls_to(KA + "helpers::is_recoverable_error")
        for c in rec:
            for i, bl in enumerate(b.blocks):
                sc = flow.switch_condition(b, i)
                if sc and sc.get("kind") == "call" and sc["call"] is c:
                    bad = sc["true"] if sc.get("neg") else sc["false"]
                    r = flow.reach_avoiding(b, [bad], [])
                    again = [x for x in b.calls() if x.bb in r and (strip_generics(x.callee) in (TRAIT + "::reestablish_connection", ITER_NEXT, KA + "reqrep::KeepAlive::try_reconnect")
                                                                    or x.name() in ("listen", "request") and "streams::request_reply" in x.callee)]
                    errs = [1 for i2, j, pl, rv, s in K.aggregates(b, "core::result::Result", r) if rv["variant"] == "Err" and pl["l"] == 0]
                    errs += [1 for x in b.calls() if x.bb in r and strip_generics(x.callee) == "core::ops::try_trait::FromResidual::from_residual" and x.dest and x.dest["l"] == 0]
                    who = b.path.rsplit("::", 2)[-2] if "closure" in b.path else b.path
                    ctx.check(not again and bool(errs), "C12.D2.unrecoverable", "unrecoverable-retried:%s" % who,
                              "in %s an unrecoverable error is returned at once (no further attempt)" % who, c.span)
    # pub/sub exhaustion
    od = inl(F, F.body(KA + "pubsub::KeepAlive::<T>::on_disconnect"))
    nexts = [c for c in od.calls() if strip_generics(c.callee) == ITER_NEXT and ("NextAttempt" in c.self_ty or "BackoffStrategyIter" in c.self_ty) and not c.macros]
    ctx.floor("C12.D2.exhaustion-pubsub.consumers", len(nexts), 1)
    for c in nexts:
        arm, m = none_arm(od, c)
        ok = False
        if arm is not None:
            vs = [rv["variant"] for i, j, pl, rv, s in K.aggregates(od, KA + "connection_status::ConnectionStatus", arm)]
            again = [x for x in od.calls() if x.bb in od.reachable(m["None"]) and strip_generics(x.callee) in (TRAIT + "::get_headers", TRAIT + "::reestablish_connection")]
            ok = vs == ["Exhausted"] and not again
        ctx.check(ok, "C12.D2.exhaustion-pubsub", "pubsub:exhaustion", "an exhausted budget puts the pub/sub wrapper into Exhausted and schedules no attempt", c.span)
    # on_disconnect changes the wrapper's state (new attempt scheduled, or Exhausted) and its callers then return Pending: every
    # path through it must wake the task, otherwise the new state is never acted upon (a hang instead of TooManyRetries)
    wakes = [c.bb for c in od.calls() if strip_generics(c.callee) in ("core::task::wake::Waker::wake_by_ref", "core::task::wake::Waker::wake")]
    rets = od.returns()
    unwoken = [r for r in rets if r in flow.reach_avoiding(od, [0], wakes)]
    ctx.check(bool(wakes) and not unwoken, "C12.D2.exhaustion-wakes", "pubsub:state-change-without-wake",
              "every path through on_disconnect (next attempt scheduled or budget exhausted) wakes the task before returning", od.span)
    for meth, trait in (("poll_ready", "futures_sink::Sink"), ("poll_next", "futures_core::stream::Stream"), ("poll_close", "futures_sink::Sink")):
        b = F.impl_method(trait, KA + "pubsub::KeepAlive", meth)
        ctx.touch(b)
        sws = K.find_variant_switches(b, KA + "connection_status::ConnectionStatus")
        ok = False
        for sw in sws:
            arms, adt, pl, other, allv = K.arm_map(b, sw)
            if "Exhausted" in arms:
                errs = [rv["variant"] for i, j, pl2, rv, s in K.aggregates(b, "selium_std::errors::QuicError", arms["Exhausted"])]
                ok = errs == ["TooManyRetries"]
        ctx.check(ok, "C12.D2.exhausted-reported", "pubsub:exhausted-silent:%s" % meth, "KeepAlive::%s reports TooManyRetries once exhausted" % meth, b.span)
    classification_only(ctx, F)
    # the classification only works on errors that reach it unchanged: a transport error met while waiting for the registration
    # acknowledgement (handle_reply's `Some(Err(e))`) must be returned as it is, not re-wrapped as a (non-recoverable) OpenStream error
    hr = F.inlined(F.one_body(r"^selium::streams::handle_reply::\{closure#0\}$"))
    ctx.touch(hr)
    passthrough = False
    for i, j, pl, rv, s in K.aggregates(hr, "core::result::Result"):
        if rv["variant"] != "Err" or pl["l"] != 0:
            continue
        o = rv["ops"][0]
        r = flow.root(hr, o)
        pls = []
        if o.get("k") in ("copy", "move"):
            pls.append(o["pl"])
        if r[0] == "rv" and r[1]["k"] == "use" and r[1]["op"].get("k") in ("copy", "move"):
            pls.append(r[1]["op"]["pl"])
        for q in pls:
            names = [e.get("vn") for e in q["p"] if isinstance(e, dict) and "v" in e]
            if names == ["Some", "Err"]:
                passthrough = True
    # .. and the framed halves of the BiStream hand the transport's errors up as they come: the recoverable kinds are recognised by their
    # io::ErrorKind, so a "more precise" re-typing below the client makes every write-side outage unrecoverable
    nb = 0
    for im in F.impls:
        if im.get("trait") not in ("futures_sink::Sink", "futures_core::stream::Stream") or not (im.get("self_adt") or "").startswith("selium_protocol::bistream::"):
            continue
        for m_, path_ in sorted(im.get("items", {}).items()):
            b_ = F.bodies.get(path_)
            if b_ is None or not m_.startswith("poll_"):
                continue
            nb += 1
            ctx.touch(b_)
            ib_ = F.inlined(b_, only=("selium_protocol::",))
            remap = [c for c in ib_.calls() if c.name() in ("map_err", "map", "map_ok", "or_else", "and_then") and ("Poll" in (c.self_ty or "") or "Result" in (c.self_ty or "") or "poll" in c.callee.lower() or "result" in c.callee.lower())]
            built = [s_ for i_, j_, pl_, rv_, s_ in ib_.assigns() if rv_["k"] == "agg" and rv_.get("adt") in ("selium_std::errors::SeliumError", "selium_std::errors::QuicError")]
            ctx.check(not remap and not built, "C12.D2.transport-error-unchanged", "bistream:%s:%s-retypes-error" % ((im.get("self_adt") or "").rsplit("::", 1)[-1], m_),
                      "%s::%s returns the framed transport's result as it is (no error re-typing between the wire and is_recoverable_error)" % ((im.get("self_adt") or "").rsplit("::", 1)[-1], m_),
                      (remap[0].span if remap else built[0].get("span", b_.span) if built else b_.span))
    ctx.check(nb >= 4, "C12.D2.transport-error-unchanged", "bistream:poll-fns-missing", "the poll functions of the BiStream halves were analysed (%d)" % nb)
    if not passthrough:
        # `stream.next().await.transpose()?`: Option<Result<T, E>> -> Result<Option<T>, E>, the error propagated by `?` as it is
        for c in hr.calls():
            if strip_generics(c.callee) == "core::option::Option::transpose" and c.dest is not None:
                te = K.try_edges(hr, c)
                if te is not None and te[1] is not None:
                    passthrough = True
    ctx.check(passthrough, "C12.D2.transport-error-unchanged", "handle_reply:transport-error-rewrapped",
              "handle_reply returns a stream error met during registration unchanged (so that a connection lost mid-registration stays recoverable)", hr.span)
    ide = F.body(KA + "helpers::is_disconnect_error")
    ctx.touch(ide)
    # (seed c12-22) which io::ErrorKinds count as an outage: quinn's `From<ReadError|WriteError> for io::Error` reports a lost connection /
    # closed stream as NotConnected and a reset / stopped stream as ConnectionReset. Both must be accepted (a superset is fine; the set
    # is read off the function, not matched as text: a `match`/`matches!` shows as a switch on discr(ErrorKind), `==` as a comparison
    # with a promoted `&ErrorKind::X`).
    EK = "core::io::error::ErrorKind"
    DISCR = {3: "ConnectionReset", 7: "NotConnected"}      # std::io::ErrorKind discriminants on the pinned toolchain (see ASSUMPTIONS)
    accepted, forms = set(), 0
    dl = {pl["l"] for i, j, pl, rv, st in ide.assigns() if rv["k"] == "discr" and rv.get("adt") == EK}
    for bl in ide.blocks:
        t = bl["term"]
        if bl.get("cleanup") or t["k"] != "switch" or op_local(t["discr"]) not in dl:
            continue
        forms += 1
        for val, tgt in t["targets"]:
            accepted.add(DISCR.get(int(val), "#%s" % val))
    def _ops():
        for i, j, pl, rv, st in ide.assigns():
            if rv["k"] == "use":
                yield rv["op"]
        for c in ide.calls():
            for a in (c.args or []):
                yield a
    for o in _ops():
        if isinstance(o, dict) and o.get("k") == "const" and o.get("promoted_adt") == EK:
            forms += 1
            accepted.add(o.get("promoted_variant"))
    ctx.check(forms > 0 and {"ConnectionReset", "NotConnected"} <= accepted, "C12.D2.outage-kinds", "disconnect-kinds",
              "is_disconnect_error accepts at least the kinds the transport reports for a lost connection / closed or reset stream "
              "(ConnectionReset, NotConnected); found %s" % sorted(str(a) for a in accepted), ide.span)
    ibe = F.body(KA + "helpers::is_bind_error")
    ctx.touch(ibe)
    items = [o.get("item") for i, j, pl, rv, s in ibe.assigns() if rv["k"] == "binop" and rv["op"] == "Eq" for o in (rv["a"], rv["b"]) if o.get("k") == "const"]
    ctx.check(items == ["selium_protocol::error_codes::REPLIER_ALREADY_BOUND"], "C12.D2.classification", "bind-error-code",
              "is_bind_error tests equality with REPLIER_ALREADY_BOUND (found %s)" % items, ibe.span)


def d3(ctx, F):
    sites = F.callers_of("selium::streams::request_reply::requestor::Requestor::split_stream")
    ctx.floor("C12.D3.reader-respawn.split-sites", len(sites), 2)
    for c in sites:
        b = c.body
        ctx.touch(b)
        pr = b.calls_to("selium::streams::request_reply::requestor::poll_replies")
        sv = flow.derived(b, {c.dest["l"]}, calls="adapters")
        # the read half may have been stored into self.read_half first
        stored = False
        for i, j, pl, rv, s in b.assigns():
            if pl["l"] == 1 and rv_locals(rv) & sv:
                stored = True
        ok = False
        for p in pr:
            a = p.args[0]
            if op_local(a) in sv and b.dominates(c.bb, p.bb):
                ok = True
            r = flow.root(b, a, through_calls=flow.ADAPTERS)
            if stored and b.dominates(c.bb, p.bb) and r[0] == "rv" and r[1].get("pl", r[1].get("op", {}).get("pl", {})).get("l") == 1:
                ok = True
        who = "spawn" if "spawn" in b.path else ("on_reconnect" if "on_reconnect" in b.path else b.path)
        ctx.check(ok, "C12.D3.reader-respawn", "no-reader:%s" % who,
                  "after Requestor::split_stream in %s a reply-reader task is started on the new read half" % who, c.span)


def d4(ctx, F):
    impls = F.impls_of(TRAIT)
    ctx.floor("C12.D4.keepalive-impls", len(impls), 4)
    for im in sorted(impls, key=lambda i: i["self"]):
        name = im["self_adt"].rsplit("::", 1)[-1]
        orb = F.body(im["items"]["on_reconnect"])
        ctx.touch(orb)
        adt = F.adt(im["self_adt"])
        fields = [f["name"] for f in adt["variants"][0]["fields"]]
        argv = flow.derived(orb, {2}, calls="all")
        stores = [(pl, rv, s) for i, j, pl, rv, s in orb.assigns() if pl["l"] == 1 and "*" in pl["p"] and rv_locals(rv) & argv]
        stored_fields = {fields[[e for e in pl["p"] if isinstance(e, int)][0]] for pl, rv, s in stores if [e for e in pl["p"] if isinstance(e, int)]}
        want = {"stream"} if "stream" in fields else {"write_half", "read_half"}
        ctx.check(want <= stored_fields, "C12.D4.install", "on_reconnect:%s" % name, "%s::on_reconnect installs the new stream into %s (stores: %s)" % (name, sorted(want), sorted(stored_fields)), orb.span)
        gh = F.body(im["items"]["get_headers"])
        ctx.touch(gh)
        hidx = fields.index("headers")
        cl = [c for c in gh.calls() if strip_generics(c.callee) == "core::clone::Clone::clone"]
        ok = False
        for c in cl:
            r = flow.root(gh, c.args[0], through_calls=())
            if r[0] == "rv" and r[1]["k"] == "ref" and r[1]["pl"]["l"] == 1 and [e for e in r[1]["pl"]["p"] if isinstance(e, int)] == [hidx]:
                ok = True
        ctx.check(ok, "C12.D4.same-settings", "get_headers:%s" % name, "%s::get_headers returns the registration payload the stream was opened with" % name, gh.span)
        # reestablish_connection: closure reconnects then re-opens with the given headers
        rb = F.body(im["items"]["reestablish_connection"])
        cls = F.closures_of(rb)
        ctx.touch(rb, *cls)
        ok = False
        for cb in cls:
            rc = [c for c in cb.calls() if strip_generics(c.callee) == "selium::connection::ClientConnection::reconnect"]
            os_ = [c for c in cb.calls() if c.name() == "open_stream"]
            if len(rc) == 1 and len(os_) == 1:
                aw = [a for a in flow.awaits(cb) if a.source is rc[0]]
                okd = bool(aw) and aw[0].ready_block() is not None and cb.dominates(aw[0].ready_block(), os_[0].bb)
                # headers argument is the captured parameter (upvar field 1 of the closure state)
                r = flow.root(cb, os_[0].args[1])
                okh = r[0] == "rv" and r[1]["k"] == "use" and r[1]["op"]["pl"]["l"] == 1
                # `?` on reconnect: failure returns without opening
                ok = okd and okh
        ctx.check(ok, "C12.D4.reregister", "reestablish:%s" % name, "%s::reestablish_connection reconnects (awaited, `?`) and then re-registers with the headers it was given" % name, rb.span)
    # callers hand over the stream's own headers and connection
    for path in (r"^selium::keep_alive::reqrep::KeepAlive::<T>::try_reconnect::\{closure#0\}$", r"^selium::keep_alive::pubsub::KeepAlive::<T>::on_disconnect$"):
        b = inl(F, F.one_body(path))
        gh = [c for c in b.calls() if strip_generics(c.callee) == TRAIT + "::get_headers"]
        gc = [c for c in b.calls() if strip_generics(c.callee) == TRAIT + "::get_connection"]
        rs = [c for c in b.calls() if strip_generics(c.callee) == TRAIT + "::reestablish_connection"]
        if not rs:
            # pub/sub: the call sits in the async block created in on_disconnect
            for cb in F.closures_in(b):
                rs += [c for c in cb.calls() if strip_generics(c.callee) == TRAIT + "::reestablish_connection"]
                ctx.touch(cb)
            ok = len(gh) == 1 and len(gc) == 1 and len(rs) == 1
            if ok:
                # captured into the async block
                cap = [rv for i, j, pl, rv, s in b.assigns() if rv["k"] == "agg" and rv.get("agg") in ("coroutine", "closure")]
                hv = flow.derived(b, {gh[0].dest["l"], gc[0].dest["l"]}, calls=())
                ok = any(sum(1 for o in rv["ops"] if op_local(o) in hv) >= 2 for rv in cap)
        else:
            ok = len(gh) == 1 and len(gc) == 1 and len(rs) == 1 and flow.root_local(b, rs[0].args[1]) == gh[0].dest["l"] and flow.root_local(b, rs[0].args[0]) == gc[0].dest["l"]
        ctx.check(ok, "C12.D4.same-settings", "reconnect-args:%s" % ("reqrep" if "reqrep" in path else "pubsub"),
                  "the reconnect attempt is made with the stream's own connection and headers", (rs or [b])[0].span)
    # ClientConnection::reconnect
    rc = F.one_body(r"^selium::connection::ClientConnection::reconnect::\{closure#0\}$")
    ctx.touch(rc)
    cr = [c for c in rc.calls() if c.name() == "close_reason"]
    ce = rc.calls_to("selium::connection::connect_to_endpoint")
    ok = False
    if len(cr) == 1 and len(ce) == 1:
        for i, bl in enumerate(rc.blocks):
            sc = flow.switch_condition(rc, i)
            if sc and sc.get("kind") == "call" and strip_generics(sc["call"].callee) in ("core::option::Option::is_some", "core::option::Option::is_none"):
                issome = strip_generics(sc["call"].callee).endswith("is_some") != bool(sc.get("neg"))
                edge = sc["true"] if issome else sc["false"]
                other = sc["false"] if issome else sc["true"]
                if flow.root_local(rc, sc["call"].args[0]) == cr[0].dest["l"] or op_local(sc["call"].args[0]) in flow.derived(rc, {cr[0].dest["l"]}, calls="adapters"):
                    ok = ce[0].bb in rc.reachable(edge) and ce[0].bb not in flow.reach_avoiding(rc, [other], [i])
    ctx.check(ok, "C12.D4.reconnect-when-closed", "reconnect:condition", "ClientConnection::reconnect dials again exactly when the old connection reports a close reason", (ce or [rc])[0].span)
    st = [(pl, s) for i, j, pl, rv, s in rc.assigns() if "*" in pl["p"] and [e for e in pl["p"] if isinstance(e, int)]]
    cc = F.adt("selium::connection::ClientConnection")
    cidx = [f["name"] for f in cc["variants"][0]["fields"]].index("connection")
    ctx.check(any([e for e in pl["p"] if isinstance(e, int)][-1] == cidx for pl, s in st), "C12.D4.reconnect-when-closed", "reconnect:not-stored",
              "the new connection replaces self.connection", rc.span)


def d5(ctx, F):
    """the reconnecting pub/sub wrapper never parks without a wake-up arranged in the same call: while Disconnected every poll function
    has to drive the reconnection attempt (poll_reconnect polls it, which registers the waker) before answering Pending — otherwise the
    caller hangs although the server is reachable"""
    n = 0
    for p_, b in sorted(F.bodies.items()):
        if b.crate == "selium" and (b.name or "").startswith("poll") and not b.is_coroutine and "keep_alive::pubsub" in p_ and p_.startswith("<"):
            ctx.touch(b)
            n += 1
            K.pending_discipline(ctx, F, b, "C12.D5.pending-has-waker", "KeepAlive::" + b.name)
    ctx.floor("C12.D5.poll-fns", n, 4)


def d6(ctx, F):
    """(a) a replier keeps serving: KeepAlive<Replier>::listen never returns Ok — every end of the stream, orderly or not, leads to a
    reconnect episode or to an error; (b) "re-registers with the same settings": the headers a stream re-registers with are the ones it
    was opened with — get_headers returns a clone of the stored headers, nothing rebuilt"""
    lb = F.one_body(r"^selium::keep_alive::reqrep::KeepAlive::<selium::streams::request_reply::replier::Replier<E, D, F, ReqItem, ResItem>>::listen::\{closure#0\}$")
    ctx.touch(lb)
    ib = F.inlined(lb, only=("selium::keep_alive::",), keep=[p_ for p_ in F.bodies if "try_reconnect" in p_])
    retl = K.return_locals(ib)
    oks = []
    for i, j, pl, rv, s in ib.assigns():
        if rv["k"] == "agg" and rv.get("adt") == "core::result::Result" and rv.get("variant") == "Ok":
            # Ok(()) that becomes the value of the coroutine: Poll::Ready(Ok(..)) built from it, or assigned to the return place
            fl = flow.derived(ib, {pl["l"]}, calls=())
            if fl & retl or pl["l"] in retl:
                oks.append(s.get("span", lb.span))
    ctx.check(not oks, "C12.D3.replier-keeps-listening", "listen:returns-ok", "KeepAlive<Replier>::listen has no Ok return: the end of its stream always leads to a reconnect episode or an error", (oks or [lb.span])[0])
    # the recovery of a requestor happens inside request(): no timer may bound (and cancel) the retry loop as a whole — the per-request
    # timeout lives in Requestor::request, the delays in the back-off schedule
    timers = [c for p_, b_ in sorted(F.bodies.items()) if p_.startswith(KA + "reqrep::") for c in b_.calls()
              if strip_generics(c.callee) in ("tokio::time::timeout::timeout", "tokio::time::timeout::timeout_at", "tokio::time::sleep::sleep_until")]
    ctx.check(not timers, "C12.D3.recovery-not-cancelled", "reqrep:timer-around-recovery", "the reconnecting request/reply wrapper puts no timer of its own around a call and its recovery (%s)"
              % (", ".join(sorted({c.body.path.rsplit("::", 2)[-2] for c in timers})) or "none"), (timers or [lb])[0].span)
    n = 0
    for im in F.impls_of(TRAIT):
        path_ = im.get("items", {}).get("get_headers")
        b_ = F.bodies.get(path_ or "")
        if b_ is None:
            continue
        n += 1
        ctx.touch(b_)
        ib_ = F.inlined(b_, keep=[p2 for p2 in F.bodies if "core::clone::Clone>::clone" in p2])
        built = [s_ for i_, j_, pl_, rv_, s_ in ib_.assigns() if rv_["k"] == "agg" and rv_.get("agg") == "adt" and rv_.get("adt", "").startswith("selium_protocol::")]
        clones = [c for c in b_.calls() if c.name() == "clone"]
        ok = not built and len(clones) == 1 and clones[0].dest is not None and (clones[0].dest["l"] == 0 or 0 in flow.derived(b_, {clones[0].dest["l"]}, calls=()))
        if ok:
            r_ = flow.root(b_, clones[0].args[0], through_calls=())
            ok = r_[0] == "rv" and r_[1]["k"] == "ref" and r_[1]["pl"]["l"] == 1 and len([e for e in r_[1]["pl"]["p"] if isinstance(e, int)]) == 1
        ctx.check(ok, "C12.D4.same-settings", "get_headers:rebuilt:%s" % (im.get("self_adt") or "").rsplit("::", 1)[-1],
                  "%s re-registers with a clone of the headers it was opened with (nothing rebuilt or overridden)" % (im.get("self_adt") or "").rsplit("::", 1)[-1], b_.span)
    ctx.floor("C12.D4.same-settings.impls", n, 4)


def run(ctx):
    F = ctx.facts("quick")
    d6(ctx, F)
    d5(ctx, F)
    d1(ctx, F)
    d2(ctx, F)
    d3(ctx, F)
    # recovery of one requestor handle must not discard what its sibling handles are waiting for (shared pending table)
    from . import c04
    c04.pending_map_discipline(ctx, F, "C12.D3")
    # "the full configured number of attempts": the budget iterator yields exactly max_attempts attempts (count rules of C13.D3)
    from . import c13, sweeps
    nx = F.one_body(r"^<selium::keep_alive::backoff_strategy::BackoffStrategyIter as core::iter::traits::iterator::Iterator>::next$")
    ii = F.one_body(r"^<selium::keep_alive::backoff_strategy::BackoffStrategy as core::iter::traits::collect::IntoIterator>::into_iter$")
    ctx.touch(nx, ii)
    c13.count_shape(ctx, F, F.inlined(nx), ii)
    bs = [b_ for p_, b_ in sorted(F.bodies.items()) if p_.startswith("selium::keep_alive::backoff_strategy::BackoffStrategy::with_") and "{closure" not in p_]
    for b_ in bs:
        dflt = [c for c in b_.calls() if strip_generics(c.callee) == "core::default::Default::default" or (c.name() in ("default", "new") and "backoff_strategy" in (c.callee + (c.t.get("resolved") or "")))]
        ctx.check(not dflt, "C12.D1.builders-preserve", "builder-resets:%s" % b_.name, "BackoffStrategy::%s keeps the attempt budget and the other settings it is not about" % b_.name, (dflt or [b_])[0].span)
    # "messages published after recovery are delivered": the re-registered subscriber is a new entry behind the dead one in the fan-out
    sweeps.fanout_sweep(ctx, F, "C12.D6", "poll_flush")
    d4(ctx, F)
