"""C13 — back-off schedules: panic-/wrap-free arithmetic, clamp, count shape, dependence signature."""
from .. import flow, panics
from ..facts import strip_generics, op_local, rv_locals
from . import common as K

EXPLANATION = (
    "Decided on the MIR of BackoffStrategyIter::next / BackoffStrategy::into_iter (and their workspace callees): (D1) every arithmetic "
    "site on configuration values is enumerated (Duration*u32, Duration::mul_f64, u64::pow, +/- with overflow assert) and must be of a "
    "checked/saturating form or discharged by the count-shape invariant; (D2) when a maximum delay is configured every path to the yielded "
    "NextAttempt passes Ord::min/clamp against that maximum; (D3) attempts start at the constant 1, the schedule ends exactly on "
    "current_attempt > max_attempts, the counter's only write is +1 and the yielded attempt number is the pre-increment value; (D4) per "
    "strategy the delay depends on exactly {step} / {step, attempt through a multiplication} / {step, factor, attempt through a power and a "
    "multiplication}. The numerical law itself (exact values, exact saturation value) is NOT decided.")
ASSUMPTIONS = ["std's checked_*/saturating_* never panic; Duration::saturating_mul saturates at Duration::MAX"]

ITER = "selium::keep_alive::backoff_strategy::BackoffStrategyIter"
STRAT = "selium::keep_alive::backoff_strategy::Strategy"
NEXTA = "selium::keep_alive::backoff_strategy::NextAttempt"

MUL_FAMILY = {"core::ops::arith::Mul::mul", "core::time::Duration::mul_f64", "core::time::Duration::mul_f32", "core::time::Duration::saturating_mul",
              "core::time::Duration::checked_mul", "core::num::<impl u128>::checked_mul", "core::num::<impl u64>::checked_mul",
              "core::num::<impl u128>::saturating_mul", "core::num::<impl u64>::saturating_mul", "core::ops::arith::MulAssign::mul_assign"}
POW_FAMILY = {"core::num::<impl u64>::pow", "core::num::<impl u64>::checked_pow", "core::num::<impl u64>::saturating_pow",
              "core::num::<impl u64>::wrapping_pow", "core::num::<impl u64>::overflowing_pow", "core::f64::<impl f64>::powi", "std::f64::<impl f64>::powi",
              "std::f64::<impl f64>::powf", "core::num::<impl u128>::checked_pow", "core::num::<impl u128>::pow"}


def field_index(F, adt, name):
    a = F.adt(adt)
    return [f["name"] for f in a["variants"][0]["fields"]].index(name)


def reads_of_field(body, path_proj):
    """locals assigned from (*self).<proj>"""
    out = set()
    for i, j, pl, rv, s in body.assigns():
        if rv["k"] == "use" and rv["op"].get("k") in ("copy", "move"):
            p = rv["op"]["pl"]
            if p["l"] == 1 and [e for e in p["p"] if e != "*"] == path_proj:
                out.add(pl["l"])
    return out


def find_field(F, name, module="selium::keep_alive::backoff_strategy::"):
    """(adt path, field index) of the struct field called `name` in the back-off module"""
    from ..facts import AnchorMissing
    hits = []
    for p_, a in F.adts.items():
        if p_.startswith(module) and a.get("variants"):
            for v in a["variants"]:
                for i, f in enumerate(v["fields"]):
                    if f["name"] == name:
                        hits.append((p_, i))
    hits = [h for h in hits if h[0] != NEXTA]          # (the yielded NextAttempt repeats the configured maximum)
    if len(hits) != 1:
        raise AnchorMissing("expected exactly one field `%s` in %s*, found %s" % (name, module, hits))
    return hits[0]


def self_reads(body):
    """local -> projection path (without derefs) for locals assigned from a place inside *self"""
    out = {}
    for i, j, pl, rv, s in body.assigns():
        p = None
        if rv["k"] == "use" and rv["op"].get("k") in ("copy", "move") and not pl["p"]:
            p = rv["op"]["pl"]
        elif rv["k"] == "ref" and not pl["p"]:
            p = rv["pl"]            # a reference to the place (match-guard bindings read through one)
        if p is not None and p["l"] == 1 and [e for e in p["p"] if e != "*"]:
            out[pl["l"]] = tuple(e if isinstance(e, int) else ("v", e.get("vn")) for e in p["p"] if e != "*")
    return out


def counter_locals(nx):
    """(cur locals, path): the value yielded as attempt_num is read from this place of the iterator's own state"""
    an_adt, an = NEXTA, None
    reads = self_reads(nx)
    for i, j, pl, rv, s in K.aggregates(nx, NEXTA):
        idx = rv["fields"].index("attempt_num") if "attempt_num" in rv.get("fields", []) else None
        if idx is None:
            continue
        rl = flow.root_local(nx, rv["ops"][idx])
        # follow plain copies back to the read of self state
        seen = set()
        while rl is not None and rl not in reads and rl not in seen:
            seen.add(rl)
            d = flow.single_def(nx, rl)
            if d and d[0] == "assign" and d[3]["k"] == "use" and d[3]["op"].get("k") in ("copy", "move") and not d[3]["op"]["pl"]["p"]:
                rl = d[3]["op"]["pl"]["l"]
            else:
                break
        if rl in reads:
            path = reads[rl]
            return {l for l, p_ in reads.items() if p_ == path}, path
    return set(), None


def count_shape(ctx, F, nx, ii):
    """D3; returns True when the invariant `attempt counter >= 1` is established. The counter is identified by what it is used for —
    the place of the iterator's state whose value is yielded as `attempt_num` — not by its name or representation"""
    good = True
    cur, path = counter_locals(nx)
    if not ctx.check(path is not None, "C13.D3.attempt-num", "next:attempt-num", "the yielded attempt_num is read from the iterator's own state", nx.span):
        return False
    top = path[0]
    # into_iter: the counter starts at the constant 1 (possibly wrapped in an enum / struct of the state)
    aggs = K.aggregates(ii, ITER)
    def holds_one(op, depth=0):
        if flow.const_of(op) == 1:
            return True
        if depth > 3 or op.get("k") not in ("copy", "move"):
            return False
        r = flow.root(ii, op)
        if r[0] == "const":
            return flow.const_of(r[1]) == 1
        if r[0] == "rv" and r[1]["k"] == "agg":
            return any(holds_one(o, depth + 1) for o in r[1]["ops"])
        return False
    ok = len(aggs) == 1 and isinstance(top, int) and top < len(aggs[0][3]["ops"]) and holds_one(aggs[0][3]["ops"][top])
    good &= ctx.check(ok, "C13.D3.starts-at-1", "into_iter:start", "into_iter initialises the attempt counter to the constant 1", ii.span)
    madt, ma = find_field(F, "max_attempts")
    mx = {l for l, p_ in self_reads(nx).items() if p_ and p_[-1] == ma and len(p_) >= 2}
    curv = flow.derived(nx, cur, calls=())
    mxv = flow.derived(nx, mx, calls=())
    # exit comparison
    found = False
    for i, b in enumerate(nx.blocks):
        sc = flow.switch_condition(nx, i)
        if not sc or sc.get("kind") != "cmp":
            continue
        a, bb_ = op_local(sc["a"]), op_local(sc["b"])
        op = sc["op"]
        if a in mxv and bb_ in curv:
            a, bb_, op = bb_, a, flow._FLIP[op]
        if a in curv and bb_ in mxv:
            found = True
            nones = {i2 for i2, j, pl, rv, s in K.aggregates(nx, "core::option::Option") if rv["variant"] == "None" and pl["l"] == 0}
            somes = {i2 for i2, j, pl, rv, s in K.aggregates(nx, "core::option::Option") if rv["variant"] == "Some" and pl["l"] == 0}
            # normalise to the edge on which counter > max_attempts holds
            if op == "Gt":
                over, within = sc["true"], sc["false"]
            elif op == "Le":
                over, within = sc["false"], sc["true"]
            else:
                over = within = None
            shape = False
            if over is not None:
                o_r = flow.reach_avoiding(nx, [over], [i])
                w_r = flow.reach_avoiding(nx, [within], [i])
                shape = bool(nones & o_r) and not (somes & (o_r - w_r)) and bool(somes & w_r)
            good &= ctx.check(bool(shape), "C13.D3.exit-comparison", "next:exit-cmp",
                              "the schedule ends (None) exactly when the attempt counter > max_attempts (found: counter %s max_attempts)" % op, b["term"]["span"])
    good &= ctx.check(found, "C13.D3.exit-comparison", "next:no-exit-cmp", "next() compares the attempt counter with max_attempts", nx.span)
    # the schedule ends for no other reason: no `?` on an intermediate Option (an overflowing power, a failed conversion) may end it early
    early = [c for c in F.inlined(nx).calls() if strip_generics(c.callee) == "core::ops::try_trait::FromResidual::from_residual" and c.dest is not None]
    good &= ctx.check(not early, "C13.D3.no-early-end", "next:ends-on-intermediate-none", "next() never ends the schedule because an intermediate computation yielded None (`?`)", (early or [nx])[0].span)
    # writes to the counter's place in the state
    writes = []
    for i, j, pl, rv, s in nx.assigns():
        pp = tuple(e if isinstance(e, int) else ("v", e.get("vn")) for e in pl["p"] if e != "*")
        if pl["l"] == 1 and pp and pp[0] == top and (pp == path[:len(pp)] or path == pp[:len(path)]):
            writes.append((i, rv, s))
    good &= ctx.check(len(writes) >= 1, "C13.D3.increment", "next:no-increment", "next() advances the attempt counter", nx.span)
    wblocks = []

    def is_plus1(op, depth=0):
        """the operand is counter + 1 (checked or not), possibly wrapped in an aggregate of the state's representation"""
        if op.get("k") not in ("copy", "move") or depth > 3:
            return False
        r = flow.root(nx, op)
        if r[0] == "rv" and r[1]["k"] == "binop" and r[1]["op"] in ("AddWithOverflow", "Add", "AddUnchecked") and flow.const_of(r[1]["b"]) == 1:
            src = r[1]["a"]
            return src.get("k") in ("copy", "move") and (op_local(src) in curv or (src["pl"]["l"] == 1 and tuple(e for e in src["pl"]["p"] if e != "*") == path))
        if r[0] == "call" and strip_generics(r[1].callee) in ("core::num::<impl u32>::checked_add", "core::num::<impl u32>::saturating_add") \
                and flow.const_of(r[1].args[1]) == 1 and (op_local(r[1].args[0]) in curv):
            return True
        rr = flow.payload_source(nx, op)
        if rr and rr[0] == "call" and strip_generics(rr[1].callee) == "core::num::<impl u32>::checked_add" \
                and flow.const_of(rr[1].args[1]) == 1 and op_local(rr[1].args[0]) in curv:
            return True
        if r[0] == "rv" and r[1]["k"] == "agg":
            ops_ = r[1]["ops"]
            return (not ops_) or any(is_plus1(o, depth + 1) for o in ops_)       # a unit variant = the "exhausted" marker
        if r[0] == "multi":
            # a `match` producing the new state: every definition is +1 or an exhausted marker
            ds = [d for d in nx.defs().get(r[1], []) if d[0] == "assign"]
            return bool(ds) and all((d[3]["k"] == "agg" and ((not d[3]["ops"]) or any(is_plus1(o, depth + 1) for o in d[3]["ops"]))) or
                                    (d[3]["k"] == "use" and is_plus1(d[3]["op"], depth + 1)) for d in ds)
        return False
    for i, rv, s in writes:
        plus1 = False
        if rv["k"] == "use":
            plus1 = is_plus1(rv["op"])
        elif rv["k"] == "agg":
            plus1 = (not rv["ops"]) or any(is_plus1(o) for o in rv["ops"])
        elif rv["k"] == "binop":
            plus1 = rv["op"] in ("AddWithOverflow", "Add") and flow.const_of(rv["b"]) == 1
        good &= ctx.check(plus1, "C13.D3.increment", "next:counter-write-not-plus1", "the only writes to the attempt counter are `+ 1` (checked or not) or the exhausted marker", s["span"])
        wblocks.append(i)
    # attempt_num is the pre-increment value: its read of the state precedes every write
    pre = True
    for l in cur:
        for d in nx.defs().get(l, []):
            if d[0] == "assign":
                pre &= all((nx.dominates(d[1], w) and d[1] != w) or d[1] == w or not (d[1] in flow.reach_avoiding(nx, [w], [])) for w in wblocks)
    good &= ctx.check(pre, "C13.D3.attempt-num", "next:attempt-num-order", "the yielded attempt_num is the counter's value read before the increment", nx.span)
    return good


def run(ctx):
    F = ctx.facts("quick")
    nx = F.one_body(r"^<selium::keep_alive::backoff_strategy::BackoffStrategyIter as core::iter::traits::iterator::Iterator>::next$")
    ii = F.one_body(r"^<selium::keep_alive::backoff_strategy::BackoffStrategy as core::iter::traits::collect::IntoIterator>::into_iter$")
    ctx.touch(nx, ii)
    nx_raw = nx
    nx = F.inlined(nx)          # private helpers that next() is split into (delay / clamp / advance) are looked through
    shape_ok = count_shape(ctx, F, nx, ii)

    # D1 arithmetic
    region = F.region([nx_raw, ii] + [b_ for p_, b_ in sorted(F.bodies.items()) if b_.crate == "selium" and p_.lstrip("<").startswith("selium::keep_alive::backoff_strategy") and "{closure" not in p_
                                         and p_ not in F.derived_bodies()])
    bodies = sorted(region.values(), key=lambda b: b.path)
    # (seed c13-22) full range: the law must hold for every delay a Duration can express below the cap. The u64 sub-second constructors
    # cannot (from_nanos ends at ~584 years), so a delay routed through one of them saturates early: none may be called or passed as a
    # function value anywhere in the back-off region (Duration::new / from_secs / checked_* / saturating_* keep the full range).
    import json as _json, re as _re
    narrow = sorted({(b.path, m) for b in bodies for m in _re.findall(r"core::time::Duration::(from_nanos|from_micros|from_millis)\b", _json.dumps(b.blocks))})
    ctx.check(not narrow, "C13.D1.full-range", "narrow-constructor",
              "no delay of the schedule is built through a u64 sub-second constructor (found %s in %d bodies of the back-off region)" % (narrow or "none", len(bodies)),
              nx_raw.span)

    def sub_one(site, body):
        # current_attempt - 1 cannot underflow when the count-shape invariant (>= 1) holds
        if site.kind == "assert" and site.what == "overflow:Sub" and (body is nx_raw or body is nx):
            det = site.extra.get("detail", {})
            cur = flow.derived(body, counter_locals(body)[0], calls=())
            if flow.const_of(det.get("b", {})) == 1 and op_local(det.get("a", {})) in cur and shape_ok:
                return "D6: current_attempt >= 1 by the count-shape invariant (starts at 1, only +1)"
        return None

    def div_const(site, body):
        if site.kind == "assert" and site.what in ("div_zero", "rem_zero"):
            t = site.extra
            c = flow.root(body, t["cond"])
            # cond is `Eq(divisor, 0)`; divisor constant non-zero
            if c[0] == "rv" and c[1]["k"] == "binop":
                v = flow.const_of(c[1]["a"])
                if v is None:
                    rr = flow.root(body, c[1]["a"])
                    v = flow.const_of(rr[1]) if rr[0] == "const" else None
                if v not in (None, 0):
                    return "D4: division by the non-zero constant %s" % v
        return None
    # the consumers of the schedule must not turn a saturated delay into a panic either: `Instant + Duration` / `SystemTime + Duration`
    # overflow on Duration::MAX (tokio::time::sleep(duration) saturates instead)
    cons = [b for p_, b in sorted(F.bodies.items()) if b.crate == "selium" and p_.startswith(("selium::keep_alive::pubsub::", "selium::keep_alive::reqrep::", "<selium::keep_alive::"))]
    ctx.touch(*cons)
    for b_ in cons:
        for c in b_.calls():
            if strip_generics(c.callee) in ("core::ops::arith::Add::add", "core::ops::arith::AddAssign::add_assign", "core::ops::arith::Sub::sub") and \
                    (c.self_ty or "").split("<")[0].endswith(("time::Instant", "time::SystemTime", "instant::Instant")) and "Duration" in " ".join(c.arg_tys):
                ctx.fail("C13.D1.consumer-arithmetic", "deadline-arithmetic:%s" % b_.path.rsplit("::", 2)[-2], "%s computes a deadline with `%s + Duration`, which panics for a saturated delay (use sleep(duration) / checked_add)" % (b_.path, c.self_ty.rsplit("::", 1)[-1]), c.span)
    ctx.ok("C13.D1.consumer-arithmetic", "no deadline arithmetic on the yielded delay in %d keep-alive bodies" % len(cons))
    sites = panics.analyse(ctx, bodies, "C13.D1.arithmetic", extra_rules=[sub_one, div_const], include_alloc=False, narrowing=True, F=F)
    ctx.floor("C13.D1.arithmetic.bodies", len(bodies), 3)

    # D2 clamp
    st = field_index(F, ITER, "state")
    sa = F.adt("selium::keep_alive::backoff_strategy::BackoffStrategyState")
    md = [f["name"] for f in sa["variants"][0]["fields"]].index("max_duration")
    mdl = reads_of_field(nx, [st, md])
    dur = field_index(F, NEXTA, "duration")
    aggs = K.aggregates(nx, NEXTA)
    ctx.floor("C13.D2.clamp.yields", len(aggs), 1)
    sw = None
    mdc = flow.derived(nx, mdl, calls=())          # plain copies of the configured maximum (e.g. the subject of a written-out map_or)
    for i, b in enumerate(nx.blocks):
        v = flow.switch_on_variant(nx, i)
        if v and v[1] == "core::option::Option" and v[0]["l"] in mdc | {1}:
            p = v[0]
            if p["l"] in mdc or [e for e in p["p"] if e != "*"] == [st, md]:
                sw = (i, v)
    # equivalent idiom: max_duration.map_or(delay, |max| delay.min(max))
    alt = None
    if sw is None:
        mdv = flow.derived(nx, mdl, calls=())
        for c in nx.calls():
            if strip_generics(c.callee) in ("core::option::Option::map_or", "core::option::Option::map_or_else") and op_local(c.args[0]) in mdv and len(c.args) == 3:
                r = flow.root(nx, c.args[2])
                if r[0] == "rv" and r[1]["k"] == "agg" and "closure" in r[1]:
                    cb = F.bodies.get(r[1]["closure"])
                    if cb is not None:
                        ctx.touch(cb)
                        mins = [x for x in cb.calls() if strip_generics(x.callee) in ("core::cmp::Ord::min", "core::cmp::Ord::clamp", "core::cmp::min")]
                        # the closure returns min(captured delay, its parameter = the configured maximum)
                        okc = len(mins) == 1 and mins[0].dest["l"] == 0 and any(flow.root(cb, a)[0] == "arg" and flow.root(cb, a)[1] == 2 for a in mins[0].args)
                        if okc:
                            alt = c
    if alt is not None:
        for ai, j, pl, rv, s in aggs:
            dl = flow.root_local(nx, rv["ops"][dur])
            av = flow.derived(nx, {alt.dest["l"]}, calls=())
            ctx.check(op_local(rv["ops"][dur]) in av or dl in av, "C13.D2.clamp", "next:unclamped-path",
                      "the yielded delay is max_duration.map_or(delay, |max| delay.min(max)): clamped whenever a maximum is configured", s["span"])
    elif ctx.check(sw is not None, "C13.D2.clamp", "next:no-max-test", "next() tests whether a maximum delay is configured", nx.span):
        i, v = sw
        some_t = v[2].get("Some")
        if some_t is None:
            some_t = v[3]
        # payload of Some
        payload = set()
        for i2, j, pl, rv, s in nx.assigns():
            if rv["k"] == "use" and rv["op"].get("k") in ("copy", "move"):
                p = rv["op"]["pl"]
                if any(isinstance(e, dict) and e.get("vn") == "Some" for e in p["p"]) and (p["l"] in mdc or p["l"] == 1):
                    payload.add(pl["l"])
        pv = flow.derived(nx, payload, calls=())
        mins = [c for c in nx.calls() if strip_generics(c.callee) in ("core::cmp::Ord::min", "core::cmp::Ord::clamp", "core::cmp::min") and any(op_local(a) in pv for a in c.args)]
        # every test of the configured maximum in the body (a clamp helper inlined at several sites gives several)
        max_sw = {}
        for i3, b3 in enumerate(nx.blocks):
            v3 = flow.switch_on_variant(nx, i3)
            if v3 and v3[1] == "core::option::Option" and (v3[0]["l"] in mdc or (v3[0]["l"] == 1 and [e for e in v3[0]["p"] if e != "*"] == [st, md])):
                max_sw[i3] = v3[2].get("None", v3[3])
        min_bbs = {c.bb for c in mins}

        def reaches_unclamped(target):
            """is `target` reachable from the entry without passing min(.., max) and without taking the None edge of a test of the
            maximum? (then a delay is yielded that was never compared with a configured maximum)"""
            seen, todo = set(), [0]
            while todo:
                x = todo.pop()
                if x in seen or x in min_bbs:
                    continue
                seen.add(x)
                if x == target:
                    return True
                for y in nx.succs(x):
                    if x in max_sw and y == max_sw[x]:
                        continue
                    todo.append(y)
            return False
        for ai, j, pl, rv, s in aggs:
            via = must = False
            if mins:
                must = not reaches_unclamped(ai)
                dl = flow.root_local(nx, rv["ops"][dur])
                minv = flow.derived(nx, {c.dest["l"] for c in mins}, calls=())
                via = dl in minv or any(d[0] == "assign" and rv_locals(d[3]) & minv for d in nx.defs().get(dl, []))
            ctx.check(bool(mins) and must and via, "C13.D2.clamp", "next:unclamped-path",
                      "with a maximum configured, every path to the yielded delay passes min(delay, max)", s["span"])

    # the only ordering operation applied to the law's value is min(.., configured maximum): a floor (`max`, `clamp`) changes the law for
    # small steps, and Ord::clamp panics when its bounds cross
    extra = [c for c in nx.calls() if strip_generics(c.callee) in ("core::cmp::Ord::max", "core::cmp::Ord::clamp", "core::cmp::max", "core::cmp::PartialOrd::clamp") and "Duration" in (c.self_ty or "") + " ".join(c.arg_tys)]
    ctx.check(not extra, "C13.D2.clamp", "next:extra-bound", "the delay is bounded from above by the configured maximum only (no floor / two-sided clamp: %s)" % (sorted({c.name() for c in extra}) or "none"), (extra or [nx])[0].span)
    # builders: configuring one setting keeps the others (a `..Default::default()` in `with_max_duration` silently resets the attempt budget)
    bs = [b_ for p_, b_ in sorted(F.bodies.items()) if p_.startswith("selium::keep_alive::backoff_strategy::BackoffStrategy::with_") and "{closure" not in p_]
    ctx.touch(*bs)
    for b_ in bs:
        dflt = [c for c in b_.calls() if strip_generics(c.callee) == "core::default::Default::default" or (c.name() in ("default", "new") and "backoff_strategy" in (c.callee + (c.t.get("resolved") or "")))]
        ctx.check(not dflt, "C13.D5.builders-preserve", "builder-resets:%s" % b_.name, "BackoffStrategy::%s keeps the settings it is not about (no default()/new() state)" % b_.name, (dflt or [b_])[0].span)
    # "follows the law when no maximum is set": no constructor, preset or Default sets a maximum of its own — the only writer of the
    # maximum is the builder that receives it from the caller
    SA = "selium::keep_alive::backoff_strategy::BackoffStrategyState"
    n_aggs = 0
    for p_, b_ in sorted(F.bodies.items()):
        if b_.crate != "selium" or "keep_alive::backoff_strategy" not in p_ or "core::clone::Clone>::clone" in p_:
            continue        # (a clone copies whatever maximum its original has)
        for i, j, pl, rv, s in K.aggregates(b_, SA):
            n_aggs += 1
            ctx.touch(b_)
            o = rv["ops"][md] if md < len(rv["ops"]) else None
            r = flow.root(b_, o) if o is not None and o.get("k") in ("copy", "move") else None
            is_none = r is not None and r[0] == "rv" and r[1]["k"] == "agg" and r[1].get("adt") == "core::option::Option" and r[1].get("variant") == "None"
            from_arg = r is not None and r[0] == "arg"
            ctx.check(is_none or (from_arg and b_.name.startswith("with_")), "C13.D5.presets-uncapped", "preset-sets-maximum:%s" % p_.split("backoff_strategy::")[-1],
                      "%s builds the strategy state with no maximum delay of its own (the maximum comes only from with_max_duration)" % p_.split("selium::keep_alive::")[-1], s["span"])
        for i, j, pl, rv, s in b_.assigns():
            pp = [e for e in pl["p"] if e != "*"]
            if pp[-1:] == [md] and len(pp) >= 1 and ("BackoffStrategyState" in b_.local_ty(pl["l"]) or (len(pp) >= 2 and "BackoffStrategy" in b_.local_ty(pl["l"]))):
                src_ok = False
                av = rv
                if rv["k"] == "use" and rv["op"].get("k") in ("copy", "move"):
                    r_ = flow.root(b_, rv["op"])
                    av = r_[1] if r_[0] == "rv" else rv
                    src_ok = r_[0] == "arg"          # an Option handed in by the caller as it is
                if av["k"] == "agg" and av.get("variant") == "Some" and av.get("ops") and av["ops"][0].get("k") in ("copy", "move"):
                    src_ok = flow.root(b_, av["ops"][0])[0] == "arg"
                ctx.check(src_ok and b_.name.startswith("with_"), "C13.D5.presets-uncapped", "maximum-written:%s" % p_.split("backoff_strategy::")[-1],
                          "%s: the maximum delay is written only by a with_* builder, from its argument" % p_.split("selium::keep_alive::")[-1], s["span"])
    ctx.check(n_aggs >= 1, "C13.D5.presets-uncapped", "state-constructors-missing", "the constructor(s) of the strategy state were analysed (%d)" % n_aggs)
    ctx.check(len(bs) >= 3, "C13.D5.builders-preserve", "builders-missing", "the three with_* builders of BackoffStrategy were analysed (%d)" % len(bs))
    # D4 dependence signature
    sws = K.find_variant_switches(nx, STRAT)
    if not ctx.check(len(sws) == 1, "C13.D4.signature", "next:strategy-match", "next() matches once on the strategy", nx.span):
        return
    arms, adt, pl, other, allv = K.arm_map(nx, sws[0])
    ctx.floor("C13.D4.signature.strategies", len(arms), 3)
    stp = [f["name"] for f in sa["variants"][0]["fields"]].index("step")
    stepv = flow.derived(nx, reads_of_field(nx, [st, stp]), calls="all")
    curv = flow.derived(nx, counter_locals(nx)[0], calls="all")
    facv = set()
    for i2, j, pl2, rv, s in nx.assigns():
        if rv["k"] == "use" and rv["op"].get("k") in ("copy", "move") and any(isinstance(e, dict) and e.get("vn") == "Exponential" for e in rv["op"]["pl"]["p"]):
            facv.add(pl2["l"])
    facv = flow.derived(nx, facv, calls="all")

    def fam(c, family):
        n = strip_generics(c.callee)
        if n in family:
            return True
        b = F.bodies.get(c.t.get("resolved") or c.callee)
        if b is not None:
            return any(strip_generics(x.callee) in family for x in b.calls())
        return False
    for vname, blocks in sorted(arms.items()):
        cs = K.calls_in(nx, blocks)
        muls = [c for c in cs if fam(c, MUL_FAMILY)]
        pows = [c for c in cs if fam(c, POW_FAMILY)]
        uses_step = any(rv_locals(rv) & stepv for i2, j, pl2, rv, s in K.assigns_in(nx, blocks)) or any(op_local(a) in stepv for c in cs for a in c.args)
        if vname == "Constant":
            ok = uses_step and not muls and not pows
            want = "depends on step only"
        elif vname == "Linear":
            ok = uses_step and not pows and any(any(op_local(a) in stepv for a in c.args) and any(op_local(a) in curv for a in c.args) for c in muls)
            want = "multiplies step by the attempt number"
        elif vname == "Exponential":
            powok = any(any(op_local(a) in facv for a in c.args) and any(op_local(a) in curv for a in c.args) for c in pows)
            powv = flow.derived(nx, {c.dest["l"] for c in pows if c.dest}, calls="all")
            mulok = any(any(op_local(a) in stepv for a in c.args) and any(op_local(a) in powv for a in c.args) for c in muls)
            # the power keeps its 64-bit width on the way into the product: narrowing it (u32::try_from / `as u32`, e.g. to use
            # Duration::saturating_mul(u32)) flattens the schedule as soon as factor^(n-1) passes 2^32
            mulv = flow.derived(nx, {c.dest["l"] for c in muls if c.dest and any(op_local(a) in stepv for a in c.args)}, calls="all")
            mulv |= flow.derived(nx, {pl_["l"] for i_, j_, pl_, rv_, s_ in nx.assigns() if rv_["k"] == "binop" and rv_["op"] in ("Mul", "MulWithOverflow") and
                                      (op_local(rv_["a"]) in powv or op_local(rv_["b"]) in powv)}, calls="all")
            narrow = [c for c in nx.calls() if c.bb in blocks and c.name() in ("try_from", "try_into") and any(op_local(a) in powv and op_local(a) not in mulv for a in c.args) and
                      any(t_ in (c.t.get("dest_ty") or "") + " ".join(c.t.get("gargs") or []) + c.full for t_ in ("u32", "u16", "u8", "i32"))]
            narrow += [1 for i_, j_, pl_, rv_, s_ in nx.assigns() if i_ in blocks and rv_["k"] == "cast" and rv_.get("ty") in ("u32", "u16", "u8", "i32") and op_local(rv_["op"]) in powv and op_local(rv_["op"]) not in mulv]
            ok = uses_step and powok and mulok and not narrow
            want = "multiplies step by factor raised to a power of the attempt number" + (" (the power is narrowed to 32 bits before the product)" if narrow else "")
        else:
            ok, want = False, "unknown strategy"
        if ok and vname in ("Linear", "Exponential") and muls:
            # no path of the arm yields a delay that did not go through the multiplication with `step` (a shortcut such as
            # "the power overflowed, so the delay is MAX" is wrong for a zero step)
            stepmuls = [c for c in muls if any(op_local(a) in stepv for a in c.args)]
            entry = [t_ for vn_, t_ in flow.switch_on_variant(nx, sws[0])[2].items() if vn_ == vname]
            exits = {s_ for x in blocks for s_ in nx.succ_map()[x] if s_ not in blocks}
            if entry and stepmuls and exits:
                skipped = flow.reach_avoiding(nx, entry, [c.bb for c in stepmuls]) & exits
                ok = not skipped
                want += " on every path"
        ctx.check(ok, "C13.D4.signature", "next:signature:" + vname, "%s delay %s (mul-family calls: %s; pow-family: %s)" % (
            vname, want, [c.name() for c in muls], [c.name() for c in pows]), (cs or [nx])[0].span)
