"""C11 — every stream open is answered truthfully; no frame sequence breaks the server."""
from .. import flow, panics
from ..facts import strip_generics, op_local, rv_locals
from . import common as K

EXPLANATION = (
    "Decided on the server's and client's MIR: (D1) post-Ok commit — in handle_stream, from the point Frame::Ok has been sent every path to the "
    "function's end hands the socket to the topic's router; each way of failing after Ok (an Err edge of the hand-over, a reachable panic in the "
    "hand-over's callees, any other early return) is enumerated; `_ => unreachable!()` arms are discharged only if Frame::get_topic returns Some for "
    "exactly the variants the explicit arms cover (D7) and map.get(k).unwrap() only if contains_key(k) or insert(k) dominates it; (D2) region "
    "R-router (both routers' poll, FanoutMany::*, Router::*, topic::Sender::send, Socket::unwrap_*, Frame::unwrap_message): no undischarged "
    "explicit panic reachable from a frame's content — panics inside helpers are attributed to each call site in the region (the routers' own "
    "Option/Result unwraps are decided path-sensitively by PollAI under C08/C09); (D3) the client's handle_reply returns Ok(()) only on the "
    "Frame::Ok arm and maps Frame::Error to SeliumError::OpenStream(payload.code, _). quinn's behaviour when a task panics is NOT decided.")
ASSUMPTIONS = ["a panic in a tokio task aborts that task only (the stream is then silently dropped)"]

FRAME = "selium_protocol::frame::Frame"


def frame_sends(hs):
    """awaits of SinkExt::send on the stream, with the Frame variant sent"""
    out = []
    for a in flow.awaits(hs):
        if a.source is not None and strip_generics(a.source.callee) == "futures_util::sink::SinkExt::send":
            r = flow.root(hs, a.source.args[1])
            var = None
            if r[0] == "rv" and r[1]["k"] == "agg" and r[1].get("adt") == FRAME:
                var = r[1]["variant"]
            out.append((a, var))
    return out


def d7_unreachable(F, hs):
    """returns a discharge rule for `unreachable!()` arms justified by Frame::get_topic"""
    gt = F.body("selium_protocol::frame::Frame::get_topic")
    sws = K.find_variant_switches(gt, FRAME)
    some_set = set()
    if len(sws) == 1:
        arms, adt, pl, other, allv = K.arm_map(gt, sws[0])
        vsw = flow.switch_on_variant(gt, sws[0])
        for v, blocks in arms.items():
            # everything the arm can reach (arms written as one or-pattern share the block that builds the value)
            tgt = vsw[2].get(v, vsw[3]) if vsw else None
            reach = flow.reach_avoiding(gt, [tgt], [sws[0]]) if tgt is not None else blocks
            kinds = {rv["variant"] for i, j, p2, rv, s in K.aggregates(gt, "core::option::Option", reach)}
            if kinds == {"Some"}:
                some_set.add(v)
    gtc = hs.calls_to("selium_protocol::frame::Frame::get_topic")
    cont = None
    frame_local = None
    if len(gtc) == 1:
        te = K.try_edges(hs, gtc[0])
        if te:
            cont = te[0]
        frame_local = flow.root_local(hs, gtc[0].args[0])

    def rule(site, body):
        if body is not hs or site.kind != "panic" or not site.what.startswith("unreachable"):
            return None
        if cont is None or not some_set:
            return None
        for sw in K.find_variant_switches(hs, FRAME):
            v = flow.switch_on_variant(hs, sw)
            if flow.root_local(hs, {"k": "copy", "pl": {"l": v[0]["l"], "p": []}}) != frame_local and v[0]["l"] != frame_local:
                continue
            if not hs.dominates(cont, sw):
                continue
            # the variants whose arm can reach the panic, and only it (not shared with an arm of a variant get_topic() accepts)
            reach = {vn: flow.reach_avoiding(hs, [t], [sw]) for vn, t in v[2].items()}
            if hs.term(v[3])["k"] != "unreachable":
                named = set(v[2])
                for vn in v[4]:
                    if vn not in named:
                        reach[vn] = flow.reach_avoiding(hs, [v[3]], [sw])
            hitting = {vn for vn, r in reach.items() if site.bb in r}
            if hitting and not (hitting & some_set):
                return "D7: arm unreachable — get_topic() is Some exactly for %s; the panicking arm(s) %s are for other kinds" % (sorted(some_set), sorted(hitting))
        return None
    return rule, some_set


def map_get_unwrap(hs):
    def rule(site, body):
        if body is not hs or site.kind != "unwrap" or not site.what.startswith("Option"):
            return None
        r = flow.root(hs, site.call.args[0], through_calls=())
        if r[0] != "call" or strip_generics(r[1].callee) not in ("std::collections::hash::map::HashMap::get", "std::collections::hash::map::HashMap::get_mut"):
            return None
        acc = r[1]
        kv = flow.root_local(hs, acc.args[1])
        for i, bl in enumerate(hs.blocks):
            sc = flow.switch_condition(hs, i)
            if sc and sc.get("kind") == "call" and strip_generics(sc["call"].callee) == "std::collections::hash::map::HashMap::contains_key" \
                    and flow.root_local(hs, sc["call"].args[1]) == kv and hs.dominates(i, site.bb):
                absent = sc["true"] if sc.get("neg") else sc["false"]
                ins = [c.bb for c in hs.calls() if strip_generics(c.callee) == "std::collections::hash::map::HashMap::insert" and "TopicName" in c.full
                       and kv in {flow.root_local(hs, c.args[1])} | flow.derived(hs, {kv}, calls="adapters") and (op_local(c.args[1]) in flow.derived(hs, {kv}, calls="adapters"))]
                if site.bb not in flow.reach_avoiding(hs, [absent], ins + [i]):
                    return "D2': key is present — contains_key(k) held or insert(k.clone(), ..) was executed on every path (no await releases the guard in between is assumed)"
        return None
    return rule


def d1(ctx, F):
    hs = K.handle_stream_body(ctx, F)
    ctx.touch(hs)
    sends = frame_sends(hs)
    oks = [a for a, v in sends if v == "Ok"]
    if not ctx.check(len(oks) >= 1, "C11.D1.ok-sites", "handle_stream:no-ok", "handle_stream acknowledges with Frame::Ok", hs.span):
        return
    hand = [a for a in flow.awaits(hs) if a.source is not None and strip_generics(a.source.callee) == "selium_server::topic::Sender::send"]
    ctx.floor("C11.D1.hand-overs", len(hand), 1)
    # every kind of registration is handed over: the four socket shapes are built and each flows into a hand-over
    socks = [(pl, rv, s) for i, j, pl, rv, s in hs.assigns() if rv["k"] == "agg" and rv.get("agg") == "adt" and
             rv.get("adt") in ("selium_server::topic::pubsub::Socket", "selium_server::topic::reqrep::Socket")]
    kinds = sorted({rv["variant"] for pl, rv, s in socks})
    ctx.check(kinds == ["Client", "Server", "Sink", "Stream"], "C11.D1.hand-over-kinds", "handle_stream:socket-kinds", "publisher, subscriber, replier and requestor sockets are all built (%s)" % kinds, hs.span)
    for pl, rv, s in socks:
        dv = flow.derived(hs, {pl["l"]}, calls="all")
        ctx.check(any(any(op_local(a) in dv for a in h.source.args) for h in hand), "C11.D1.hand-over-kinds", "handle_stream:socket-not-handed-over:%s" % rv["variant"],
                  "the %s socket is handed to the topic's queue" % rv["variant"], s.get("span", hs.span))
    rets = hs.returns()
    unreachable_rule, some_set = d7_unreachable(F, hs)
    ok_sent = {}
    for ok in oks:
        start = ok.ready_block()
        # the acknowledgement counts as sent on the Continue edge of its own `?`
        pv = flow.derived(hs, {ok.poll.dest["l"]}, calls=())
        for t in hs.calls():
            if strip_generics(t.callee) == "core::ops::try_trait::Try::branch" and op_local(t.args[0]) in pv:
                m = flow.switch_after_call(hs, t)
                if m and "Continue" in m:
                    start = m["Continue"]
        ok_sent[id(ok)] = start
        # success blocks of the hand-overs: Continue edge of their `?`
        succ_blocks = []
        for h in hand:
            rb = h.ready_block()
            cont = None
            # find the `?` consuming the awaited result
            for c in hs.calls():
                if strip_generics(c.callee) == "core::ops::try_trait::Try::branch" and rb is not None and hs.dominates(rb, c.bb) and c.bb in flow.reach_avoiding(hs, [rb], [x.into.bb for x in hand if x is not h]):
                    m = flow.switch_after_call(hs, c)
                    if m and "Continue" in m:
                        cont = (m["Continue"], m.get("Break"), c)
                        break
            if cont:
                succ_blocks.append(cont)
        ctx.check(len(succ_blocks) == len(hand), "C11.D1.hand-over-shape", "handle_stream:hand-over-unchecked", "every hand-over's result is checked with `?`", hs.span)
        avoid = [c[0] for c in succ_blocks]
        abandon = flow.reach_avoiding(hs, [start], avoid)
        # (i) hand-over Err edges
        k = 0
        for cont_b, brk_b, c in sorted(succ_blocks, key=lambda x: x[2].bb):
            if brk_b is not None and brk_b in abandon:
                ctx.fail("C11.D1.ok-then-committed", "post-ok:hand-over-error#%d" % k,
                         "after Frame::Ok was sent, the hand-over to the topic's router can fail (router gone / channel closed): the peer was told Ok and is then dropped", c.span)
            k += 1
        # (ii) any other return reachable without a successful hand-over, excluding the Err edges already listed and panic arms
        brk_reach = set()
        for cont_b, brk_b, c in succ_blocks:
            if brk_b is not None:
                brk_reach |= flow.reach_avoiding(hs, [brk_b], [])
        other = []
        for r in rets:
            if r in abandon:
                # is r reachable from start avoiding success AND avoiding the break edges?
                if r in flow.reach_avoiding(hs, [start], avoid + [b for _, b, _ in succ_blocks if b is not None]):
                    other.append(r)
        ctx.check(not other, "C11.D1.ok-then-committed", "post-ok:silent-return", "after Frame::Ok there is no path that returns without handing the socket over (other than listed failure edges)", ok.span)
    # (iii) panic sites after Ok in handle_stream and in the hand-over's callees
    post = set()
    for ok in oks:
        post |= flow.reach_avoiding(hs, [ok_sent.get(id(ok), ok.ready_block())], [])
    snd = F.one_body(r"^selium_server::topic::Sender::<T, E>::send::\{closure#0\}$")
    region = F.region([snd])
    helper_bodies = sorted(region.values(), key=lambda b: b.path)

    def only_post(site):
        return site.body is hs and site.bb not in post
    sites = panics.analyse(ctx, [hs], "C11.D1.no-panic-after-ok", extra_rules=[unreachable_rule, map_get_unwrap(hs)], skip=only_post, include_alloc=False)
    sites2 = panics.analyse(ctx, helper_bodies, "C11.D1.no-panic-in-hand-over", include_alloc=False)
    ctx.floor("C11.D1.bodies", 1 + len(helper_bodies), 2)
    ctx.extra["get_topic_some_variants"] = sorted(some_set)
    # also the pre-Ok part of handle_stream: first-frame handling must not panic either
    def only_pre(site):
        return site.body is hs and site.bb in post
    panics.analyse(ctx, [hs], "C11.D1.no-panic-before-ok", extra_rules=[unreachable_rule, map_get_unwrap(hs)], skip=only_pre, include_alloc=False)


def d2(ctx, F):
    entries = []
    for t, adt in (("core::future::future::Future", "selium_server::topic::pubsub::Topic"), ("core::future::future::Future", "selium_server::topic::reqrep::Topic")):
        entries.append(F.impl_method(t, adt, "poll"))
    for adt in ("selium_server::sink::fanout_many::FanoutMany", "selium_server::sink::router::Router"):
        for m in ("poll_ready", "start_send", "poll_flush", "poll_close"):
            entries.append(F.impl_method("futures_sink::Sink", adt, m))
    polls = set(b.path for b in entries[:2])
    region = F.region(entries)
    bodies = sorted(region.values(), key=lambda b: b.path)
    ctx.floor("C11.D2.region", len(bodies), 12)
    entry_paths = {b.path for b in entries}
    # helper panics are attributed to their call sites
    helper_findings = {}

    # helpers / closures that the router interpreter sees written out inside the poll bodies (its configuration inlines the topic and
    # sink modules): their unwraps are evaluated path-sensitively there as well
    from . import routers
    written_out = set()
    for which in ("pubsub", "reqrep"):
        cfg_, _i, _m = routers.config(F, which)
        written_out |= {bl.get("origin") for bl in cfg_.body.blocks if bl.get("origin")}

    def skip(site):
        # the routers' own Option/Result unwraps are PollAI's (path-sensitive); everything else stays here
        return site.kind == "unwrap" and (site.body.path in polls or (site.body.path in written_out and site.body.path not in entry_paths))

    class Collect:
        pass
    import types
    sub = types.SimpleNamespace(findings=[], instances=[], touch=ctx.touch, discharged=ctx.discharged, ok=ctx.ok)
    def sub_fail(rule, key, what, site="", detail=None):
        sub.findings.append((rule, key, what, site))
    sub.fail = sub_fail
    sites = panics.analyse(sub, bodies, "C11.D2.no-frame-panics-router", skip=skip, include_alloc=False, F=F)
    by_body = {}
    for s in sites:
        if s.discharged_by is None and not skip(s):
            by_body.setdefault(s.body.path, []).append(s)
    for path, ss in sorted(by_body.items()):
        if path in entry_paths or "{closure" in path:
            for s in ss:
                ctx.fail("C11.D2.no-frame-panics-router", s.key(), "undischarged %s site `%s` in %s: a frame's content or a peer's failure can reach it" % (s.kind, s.what, path), s.span)
        else:
            # helper: report per call site inside the region
            callers = [c for b in bodies for c in b.calls() if (c.t.get("resolved") or c.callee) == path or strip_generics(c.callee) == strip_generics(path)]
            ordn = {}
            for c in sorted(callers, key=lambda c: (c.body.path, c.bb)):
                k = ordn.get(c.body.path, 0)
                ordn[c.body.path] = k + 1
                short = panics.Site(c.body, "call", "", c.span).short_fn()
                ctx.fail("C11.D2.no-frame-panics-router", "may-panic-call:%s->%s#%d" % (short, path.rsplit("::", 1)[-1], k),
                         "%s calls %s, which panics on %s (e.g. a non-Message frame from a peer)" % (c.body.path, path, ", ".join(s.what for s in ss)), c.span)
            if not callers:
                for s in ss:
                    ctx.fail("C11.D2.no-frame-panics-router", s.key(), "undischarged %s site in %s" % (s.kind, path), s.span)


def d3(ctx, F):
    K.socket_pass_through(ctx, F, "C11.D1")
    # "explicitly refused with an error frame": the refusal in handle_stream must be reachable — nothing in front of it (serde hooks on
    # TopicName, the frame decoder) may reject a violating name first, which would end the stream without an answer
    from . import c05
    c05.d1_serde_plain(ctx, F)
    c05.d1_decoder_plain(ctx, F, "C11.D3")
    hr = F.one_body(r"^selium::streams::handle_reply::\{closure#0\}$")
    ctx.touch(hr)
    hr = F.inlined(hr)          # error-building helpers are looked through
    sws = K.find_variant_switches(hr, FRAME)
    if not ctx.check(len(sws) == 1, "C11.D3.client-maps-reply", "handle_reply:shape", "handle_reply matches once on the frame kind", hr.span):
        return
    arms, adt, pl, other, allv = K.arm_map(hr, sws[0])
    okb = [i for i, j, p2, rv, s in K.aggregates(hr, "core::result::Result") if rv["variant"] == "Ok" and p2["l"] == 0]
    ctx.check(len(okb) >= 1 and all(b in arms.get("Ok", set()) for b in okb), "C11.D3.client-maps-reply", "handle_reply:ok-outside-ok-arm",
              "handle_reply returns Ok(()) only when the server answered Frame::Ok", hr.span)
    errs = [(i, rv, s) for i, j, p2, rv, s in K.aggregates(hr, "selium_std::errors::SeliumError", arms.get("Error", set())) if rv["variant"] == "OpenStream"]
    payload = {p2["l"] for i, j, p2, rv, s in hr.assigns() if rv["k"] == "use" and rv["op"].get("k") in ("copy", "move") and any(isinstance(e, dict) and e.get("vn") == "Error" for e in rv["op"]["pl"]["p"])}
    good = bool(errs)
    ep = F.adt("selium_protocol::frame::ErrorPayload")
    cidx = [f["name"] for f in ep["variants"][0]["fields"]].index("code")
    def code_place(pl_):
        return "ErrorPayload" in hr.local_ty(pl_["l"]) and [e for e in pl_["p"] if isinstance(e, int)][-1:] == [cidx]
    for i, rv, s in errs:
        o = rv["ops"][0]
        r = flow.root(hr, o)
        fromp = (o.get("k") in ("copy", "move") and code_place(o["pl"])) or \
                (r[0] == "rv" and r[1]["k"] == "use" and r[1]["op"].get("k") in ("copy", "move") and code_place(r[1]["op"]["pl"]))
        good &= fromp
    ctx.check(good, "C11.D3.client-maps-reply", "handle_reply:error-code-lost", "a Frame::Error refusal is reported as OpenStream(payload.code, ..)", hr.span)
    noks = [b for b in okb if b in arms.get("Error", set())]
    ctx.check(not noks, "C11.D3.client-maps-reply", "handle_reply:error-as-success", "a refusal is never reported as success", hr.span)
    # every open_stream goes through handle_reply
    opens = [b for p, b in sorted(F.bodies.items()) if p.startswith("selium::streams::") and "open_stream::{closure#0}" in p]
    ctx.floor("C11.D3.open_stream-sites", len(opens), 4)
    for b0 in opens:
        ctx.touch(b0)
        b = F.inlined(b0, keep=("selium::streams::handle_reply", "selium::streams::handle_reply::{closure#0}"))        # a shared "open and register" helper is looked through
        c = b.calls_to("selium::streams::handle_reply")
        ok = False
        aw = [a for a in flow.awaits(b) if c and a.source is c[0]]
        if aw and aw[0].ready_block() is not None:
            after = flow.reach_avoiding(b, [aw[0].ready_block()], [])
            pv = flow.derived(b, {aw[0].poll.dest["l"]}, calls=())
            for t in b.calls():
                if t.bb in after and strip_generics(t.callee) == "core::ops::try_trait::Try::branch" and op_local(t.args[0]) in pv:
                    ok = True
        ctx.check(bool(ok), "C11.D3.open-checks-reply", "open_stream:reply-unchecked:%s" % b.path.split("::")[4], "%s awaits handle_reply and propagates its error" % b.path.split("::{")[0], b.span)


def d4(ctx, F):
    """refusals actually reach the peer: every Frame::Error built by the stream handler (or its helpers) is handed to SinkExt::send and that
    future is awaited — `feed` / `start_send` only buffer and the buffer is discarded when the stream is dropped"""
    hs = K.handle_stream_body(ctx, F)
    region = [b for b in F.region([hs]).values() if b.crate == "selium_server" and "::topic::" not in b.path and "::sink::" not in b.path]
    n = 0
    for b in sorted(region, key=lambda b: b.path):
        ctx.touch(b)
        aws = flow.awaits(b)
        for i, j, pl, rv, s in K.aggregates(b, FRAME):
            if rv["variant"] not in ("Error", "Ok"):
                continue
            n += 1
            fv = flow.derived(b, {pl["l"]}, calls=())
            users = [c for c in b.calls() if any(op_local(a) in fv for a in c.args)]
            sends = [c for c in users if strip_generics(c.callee) == "futures_util::sink::SinkExt::send"]
            awaited = [c for c in sends if any(a.source is c for a in aws)]
            weak = [c for c in users if strip_generics(c.callee) in ("futures_util::sink::SinkExt::feed", "futures_sink::Sink::start_send", "futures_util::sink::SinkExt::start_send_unpin")]
            flushed = [c for c in b.calls() if strip_generics(c.callee) in ("futures_util::sink::SinkExt::flush", "futures_util::sink::SinkExt::close") and any(a.source is c for a in aws)]
            good = bool(awaited) or (bool(weak) and bool(flushed) and all(any(b.dominates(w.bb, f.bb) for f in flushed) for w in weak))
            short = b.path.split("selium_server::")[-1].split("::{")[0]
            ctx.check(good, "C11.D4.answer-delivered", "answer-not-flushed:%s:%s" % (short, rv["variant"]),
                      "in %s the Frame::%s answer is sent with SinkExt::send(..).await (written and flushed), not merely buffered" % (short, rv["variant"]), s["span"])
    ctx.floor("C11.D4.answer-sites", n, 2)


def d5(ctx, F):
    """`payload sizes anywhere up to the frame limit`: what the encoder accepts the decoder accepts — the limit rules of C05.D3"""
    from . import c05
    c05.d3(ctx, F)


def _within_region(b, within):
    """blocks that execute only when the guard held: those dominated by its `within` edge, extended through flags — a bool (or an
    Option) local whose every `true` (`Some`) definition lies in the region and whose other definitions are the literal `false` (`None`)
    carries the guard to the positive edge of any switch on it (`let fits = matches!(..); fits.then_some(x)`, `match helper() { Some(x) => .. }`)"""
    W = {i for i in range(len(b.blocks)) if b.dominates(within, i)}
    for _ in range(4):
        grew = False
        pos = {}
        for l, ds in b.defs().items():
            if not ds or any(d[0] != "assign" for d in ds):
                continue
            kinds = []
            for d in ds:
                rv = d[3]
                if rv["k"] == "use" and isinstance(flow.const_of(rv["op"]), bool):
                    kinds.append(("pos" if flow.const_of(rv["op"]) else "neg", d[1]))
                elif rv["k"] == "agg" and rv.get("adt") == "core::option::Option":
                    kinds.append(("pos" if rv.get("variant") == "Some" else "neg", d[1]))
                elif rv["k"] == "use" and rv["op"].get("k") in ("copy", "move") and not rv["op"]["pl"]["p"] and rv["op"]["pl"]["l"] in pos:
                    kinds.append(("pos", d[1]) if d[1] in W else ("copy", d[1]))
                else:
                    kinds.append(("other", d[1]))
            if any(k == "pos" for k, _ in kinds) and all((k == "pos" and bb in W) or k == "neg" for k, bb in kinds):
                pos[l] = True
        # whole-local copies of such a flag
        for _2 in range(3):
            for l, ds in b.defs().items():
                if l in pos or len(ds) != 1 or ds[0][0] != "assign":
                    continue
                rv = ds[0][3]
                if rv["k"] == "use" and rv["op"].get("k") in ("copy", "move") and not rv["op"]["pl"]["p"] and rv["op"]["pl"]["l"] in pos:
                    pos[l] = True
        for i, bl in enumerate(b.blocks):
            t = bl["term"]
            if t["k"] != "switch" or bl.get("cleanup"):
                continue
            edge = None
            if t.get("discr_ty") == "bool" and op_local(t["discr"]) in pos:
                edge = t["otherwise"]
            else:
                v = flow.switch_on_variant(b, i)
                if v and v[1] == "core::option::Option" and not v[0]["p"] and v[0]["l"] in pos:
                    edge = v[2].get("Some", v[3])
            if edge is not None:
                for j in range(len(b.blocks)):
                    if j not in W and b.dominates(edge, j) and len(b.pred_map()[edge]) <= 1:
                        W.add(j)
                        grew = True
        if not grew:
            break
    return W


def d6_tagged_request_fits(ctx, F):
    """quantifier clause "requests that fit the limit only before the server adds its routing tag": the request/reply router adds the
    `cid` header to a request that was within the frame limit when it arrived; the tagged frame may exceed it, the replier's sink would
    then refuse it at encoding time and the router would take that for a failed replier. The tagged request must therefore pass a
    length test against the limit before it is buffered for the replier."""
    from . import routers
    LIMIT = 1048576
    cfg, init, me = routers.config(F, "reqrep")
    b = cfg.body
    tags = [c for c in b.calls() if strip_generics(c.callee) == "std::collections::hash::map::HashMap::insert" and len(c.args) > 1 and
            (lambda r: r[0] == "const" and flow.const_of(r[1]) == "cid")(flow.root(b, c.args[1]))]
    if not ctx.check(len(tags) == 1, "C11.D6.tagged-request-fits", "reqrep:no-tag-site", "the router adds the `cid` routing header at exactly one site", b.span):
        return
    tag = tags[0]
    frames = [(i, pl, rv, s) for i, j, pl, rv, s in K.aggregates(b, FRAME) if rv["variant"] == "Message" and b.dominates(tag.bb, i)]
    guards = []
    for i, bl in enumerate(b.blocks):
        sc = flow.switch_condition(b, i)
        if not (sc and sc.get("kind") == "cmp"):
            continue
        for val, lim, op in ((sc["a"], sc["b"], sc["op"]), (sc["b"], sc["a"], flow._FLIP[sc["op"]])):
            rl = flow.root(b, lim) if lim.get("k") != "const" else ("const", lim)
            if rl[0] == "const" and flow.const_of(rl[1]) == LIMIT and val.get("k") in ("copy", "move"):
                ps = flow.payload_source(b, val) or flow.root(b, val)
                if ps[0] == "call" and strip_generics(ps[1].callee) == "selium_protocol::frame::Frame::get_length":
                    within = sc["true"] if op in ("Le", "Lt") else sc["false"]
                    guards.append((i, within, ps[1], op))
    ok = False
    where = tag.span
    for i, pl, rv, s in frames:
        fl = pl["l"]
        fv = flow.derived(b, {fl}, calls=())
        somes = [(i2, s2) for i2, j2, pl2, rv2, s2 in K.aggregates(b, "core::option::Option") if rv2["variant"] == "Some" and any(op_local(o) in fv for o in rv2["ops"])]
        for gi, within, glc, op in guards:
            measured = flow.root_local(b, glc.args[0])
            if measured in fv or measured == fl:
                W = _within_region(b, within)
                if somes and all(i2 in W for i2, s2 in somes) and op in ("Le", "Gt"):
                    ok = True
        where = s["span"]
    ctx.check(ok, "C11.D6.tagged-request-fits", "reqrep:tagged-request-unchecked",
              "a request is buffered for the replier only after its length *with the routing tag* passed the frame limit (a request pushed over the limit by the tag is dropped, not held against the replier)", where)


def run(ctx):
    F = ctx.facts("quick")
    d6_tagged_request_fits(ctx, F)
    d1(ctx, F)
    d2(ctx, F)
    d3(ctx, F)
    d4(ctx, F)
    d5(ctx, F)
    # a live requestor must not be displaced by a newcomer (its stream would be dropped without any frame): id rules of C02.D1
    from . import c02
    c02.d1(ctx, F)
    # routers, path-sensitively: no frame sequence / peer failure reaches an unwrap (K2); a peer that was accepted or owed a refusal is
    # never dropped without its frame and close (K1 on the rejection slot, K10, K11); a request that could not be handed over is not kept
    # to be replayed against the next replier (K9 — one over-limit tagged request would otherwise unbind every replier in turn);
    # nothing accepted is dropped on the floor (K13)
    # two first registrations of one name must end up on one router (C07.D5), and one stream's failure must not end the connection's
    # accept loop (C17.D2 own-task): both leave an accepted peer unanswered
    from . import c07, c17
    c07.d5(ctx, F)
    c17.d2(ctx, F)
    from . import routers
    for which in ("pubsub", "reqrep"):
        routers.report(ctx, F, which, "C11", lambda f: f.kind in ("K1", "K2", "K5", "K9", "K10", "K11", "K13"))
        ctx.ok("C11.pollai", "%s router explored for abandoned peers / poisoned slots" % which)
