"""C07 — topic names: grammar literal, reserved namespace on both paths, never a panic,
server-side enforcement before the topic map is touched, isolation by derived Hash/Eq."""
from .. import flow, panics, literals, absint
from ..facts import strip_generics, op_local, rv_locals
from . import common as K

EXPLANATION = (
    "Decided on the MIR and the regex literals of /repo: (D1) both topic regexes are ^…$-anchored, the topic regex is "
    "'/' group '/' group with each group {3,64} over one character class, that class equals the component regex's class, contains "
    "[A-Za-z0-9_-], excludes '/', and admits nothing outside the stated alphabet; builder flags keep ^/$ whole-string; "
    "(D2) try_from and is_valid both test starts_with(RESERVED_NAMESPACE) and reject on it; the truth table of is_valid (all 8 "
    "outcomes of its three tests) is true exactly for not-reserved ∧ namespace-matches ∧ topic-matches; (D3) no undischarged panic "
    "site in the parsers; (D4) in handle_stream is_valid() dominates the lock, the map operations and every hand-over, and its false "
    "edge answers Frame::Error{code: INVALID_TOPIC_NAME} and returns; error codes pairwise distinct; (D5) TopicName's Hash/PartialEq/Eq "
    "are the derived ones and the topic map is keyed by the TopicName of this stream's first frame. The regex engine's semantics and "
    "Display∘parse identity are not decided.")
ASSUMPTIONS = ["regex crate implements the literal's semantics; Rust regex `$` without multi_line matches only at the end of input"]

TN = "selium_protocol::topic_name::TopicName"
REQUIRED = set("abcdefghijklmnopqrstuvwxyzABCDEFGHIJKLMNOPQRSTUVWXYZ0123456789_-")


def d1(ctx, F):
    regs = literals.regex_statics(F, "selium_protocol::topic_name")
    comp = regs.get("selium_protocol::topic_name::COMPONENT_REGEX")
    top = regs.get("selium_protocol::topic_name::TOPIC_REGEX")
    ctx.floor("C07.D1.regex-literals", len([r for r in (comp, top) if r is not None]), 2)
    if comp is None or top is None:
        return
    classes = {}
    for r, name in ((comp, "COMPONENT_REGEX"), (top, "TOPIC_REGEX")):
        import re as _re
        inline = _re.findall(r"\(\?([a-zA-Z-]+)[:)]", r.literal)
        ci = r.flags.get("case_insensitive") is True or any("i" in f.split("-")[0] for f in inline)
        ctx.check(not ci and not inline, "C07.D1.flags", "regex-inline-flags:" + name,
                  "%s uses no inline flag groups and is not case-insensitive (Unicode simple case folding would admit U+017F 'ſ' and U+212A 'K'); inline flags: %s" % (name, inline or "none"), r.span)
        ctx.check(r.anchored(), "C07.D1.anchored", "regex-unanchored:" + name, "%s literal %r is anchored with ^ and $" % (name, r.literal), r.span)
        ctx.check(r.flags.get("multi_line") in (False, None) and r.flags.get("ignore_whitespace") in (False, None),
                  "C07.D1.flags", "regex-flags:" + name, "%s: builder flags keep ^/$ whole-string anchors (multi_line=false) %s" % (name, r.flags), r.span)
    # component: ^ CLASS{3,64} $
    inner = comp.inner()
    c = literals.class_of(inner[0]) if len(inner) == 1 else None
    if ctx.check(c is not None, "C07.D1.component-shape", "component-shape", "COMPONENT_REGEX is one bounded repetition of a character class", comp.span):
        classes["component"] = c
    # topic: / (CLASS{3,64}) / (CLASS{3,64})
    inner = top.inner()
    shape = len(inner) == 4 and inner[0] == (literals.LITERAL, 47) and inner[2] == (literals.LITERAL, 47) and \
        inner[1][0] == literals.SUBPATTERN and inner[3][0] == literals.SUBPATTERN
    if ctx.check(shape, "C07.D1.topic-shape", "topic-shape", "TOPIC_REGEX is '/' (group) '/' (group)", top.span):
        for gi, node in ((1, inner[1]), (2, inner[3])):
            sub = list(node[1][3])
            cc = literals.class_of(sub[0]) if len(sub) == 1 else None
            ok = ctx.check(cc is not None and node[1][0] == gi, "C07.D1.topic-shape", "topic-group%d" % gi, "group %d is one bounded repetition of a class" % gi, top.span)
            if ok:
                classes["group%d" % gi] = cc
    for name, (lo, hi, items) in sorted(classes.items()):
        ctx.check((lo, hi) == (3, 64), "C07.D1.length-bounds", "regex-bounds:" + name, "%s length bounds are {3,64} (found {%d,%d})" % (name, lo, hi), top.span)
        mem, extra = literals.class_members(items, (comp if name == "component" else top).unicode_word())
        ctx.check(REQUIRED <= mem, "C07.D1.class-admits", "regex-class-missing:" + name, "%s class admits every letter, digit, '_' and '-'" % name, top.span)
        ctx.check("/" not in mem and not (mem - REQUIRED), "C07.D1.class-excludes", "regex-class-extra-ascii:" + name,
                  "%s class admits no other ASCII character (in particular not '/'); extra: %s" % (name, sorted(mem - REQUIRED)), top.span)
        ctx.check(not extra, "C07.D1.class-alphabet", "regex-unicode-word:" + name,
                  "%s class admits only letters, digits, '_' and '-'; also admits: %s" % (name, "; ".join(extra) or "nothing"), (comp if name == "component" else top).span)
    if "component" in classes:
        for g in ("group1", "group2"):
            if g in classes:
                ctx.check(classes[g] == classes["component"], "C07.D1.same-rule", "regex-siblings-differ:" + g,
                          "TOPIC_REGEX %s applies the same class and bounds as COMPONENT_REGEX (client parser = server validator)" % g, top.span)
    # capture-group unwraps in try_from: get(i) for i <= number of non-optional groups
    return top


def d2(ctx, F):
    tf0 = F.one_body(r"^<selium_protocol::topic_name::TopicName as core::convert::TryFrom<&str>>::try_from$")
    iv0 = F.body(TN + "::is_valid")
    ctx.touch(tf0, iv0)
    # private predicates / guard helpers are looked through (inlined, with their returns threaded to the caller's branches)
    tf = F.inlined(tf0, keep=(TN + "::is_valid",))
    iv = F.inlined(iv0)
    # reserved prefix in try_from (default features: __notopiccheck off); the test may sit in a closure
    # handed to Option::is_some_and / map_or (accepted family)
    good = False
    where = tf.span
    cands = []
    for b in [tf] + F.closures_of(tf0):
        for c in b.calls_to("core::str::<impl str>::starts_with"):
            item = c.args[1].get("item") if len(c.args) > 1 else None
            if item == "selium_protocol::topic_name::RESERVED_NAMESPACE":
                cands.append((b, c))
    for b, c in cands:
        seeds = None
        if b is tf:
            seeds = {c.dest["l"]}
        else:
            # closure returns the test result; find the call in try_from that receives the closure
            if 0 in flow.derived(b, {c.dest["l"]}, calls="adapters") or any(pl["l"] == 0 for _, _, pl, rv, _ in b.assigns() if c.dest["l"] in rv_locals(rv)) or (c.dest["l"] == 0):
                for c2 in tf.calls():
                    if strip_generics(c2.callee) in ("core::option::Option::is_some_and", "core::option::Option::map_or", "core::option::Option::is_none_or",
                                                       "core::option::Option::map_or_else", "core::result::Result::is_ok_and"):
                        for a in c2.args:
                            r = flow.root(tf, a)
                            if r[0] == "rv" and r[1]["k"] == "agg" and r[1].get("closure") == b.path:
                                seeds = {c2.dest["l"]}
        if not seeds:
            continue
        vals = flow.derived(tf, seeds, calls=())
        for i, bl in enumerate(tf.blocks):
            t = bl["term"]
            if t["k"] == "switch" and t.get("discr_ty") == "bool" and op_local(t["discr"]) in vals:
                sc = flow.switch_condition(tf, i)
                if not sc:
                    continue
                edge = sc["false"] if sc.get("neg") else sc["true"]
                other = sc["true"] if sc.get("neg") else sc["false"]
                r = tf.reachable(edge) - tf.reachable(other)
                builds = [1 for _, _, _, rv, _ in K.aggregates(tf, TN, tf.reachable(edge))]
                errs = [1 for _, _, _, rv, _ in K.aggregates(tf, "core::result::Result", r) if rv["variant"] == "Err"]
                if not builds and errs:
                    good = True
                where = c.span
    ctx.check(good, "C07.D2.reserved-try_from", "try_from:reserved-not-rejected",
              "TopicName::try_from rejects a name whose namespace starts with RESERVED_NAMESPACE (without __notopiccheck)", where)

    # the grammar's length bounds live in the regex literals (checked in D1): the parsers themselves must not add length tests of their
    # own — a hand-computed maximum is a second, independently wrong, statement of the grammar
    lens = []
    for bd in (tf, iv, F.inlined(F.body(TN + "::create"), keep=(TN + "::is_valid",))):
        for c in bd.calls():
            if strip_generics(c.callee) in ("core::str::<impl str>::len", "alloc::string::String::len", "core::str::<impl str>::chars", "core::str::<impl str>::bytes",
                                              "core::str::<impl str>::char_indices"):
                lens.append(c)
    ctx.check(not lens, "C07.D2.no-length-tests", "parser:own-length-test", "the TopicName parsers apply no length test of their own besides the regexes (%s)" %
              ([c.name() + "@" + c.span.rsplit("/", 1)[-1] for c in lens[:3]] or "none"), (lens or [tf])[0].span)
    # truth table of is_valid
    def classify(it, st, call):
        n = strip_generics(call.callee)
        if n == "core::str::<impl str>::starts_with":
            v, _ = it.operand(st, call.args[0])
            item = call.args[1].get("item") or flow.const_of(call.args[1])
            return ("starts_with", v[1][-1] if v[0] == "oref" else "?", item)
        if n == "regex::regex::string::Regex::is_match":
            r, _ = it.operand(st, call.args[0])
            v, _ = it.operand(st, call.args[1])
            return ("is_match", v[1][-1] if v[0] == "oref" else "?", r[1][0] if r[0] == "oref" else "?")
        return None
    rows = absint.truth_table(iv, classify)
    adt = F.adt(TN)
    fields = [f["name"] for f in adt["variants"][0]["fields"]]
    ns, tp = fields.index("namespace"), fields.index("topic")
    A_res = ("starts_with", ns, "selium_protocol::topic_name::RESERVED_NAMESPACE")
    A_ns = ("is_match", ns, "static:selium_protocol::topic_name::COMPONENT_REGEX")
    A_tp = ("is_match", tp, "static:selium_protocol::topic_name::COMPONENT_REGEX")
    ctx.floor("C07.D2.is_valid-truth-table.rows", len(rows), 4)
    trues = 0
    for atoms, val in rows:
        d = dict(atoms)
        unknown = [a for a in d if a not in (A_res, A_ns, A_tp)]
        expect = None
        if d.get(A_res) is True or d.get(A_ns) is False or d.get(A_tp) is False:
            expect = False
        elif d.get(A_res) is False and d.get(A_ns) is True and d.get(A_tp) is True:
            expect = True
        desc = ", ".join("%s(%s)=%s" % (a[0], fields[a[1]] if isinstance(a[1], int) and a[1] < len(fields) else a[1], v) for a, v in atoms)
        if val == ("bool", True):
            trues += 1
        ok = (not unknown) and val[0] == "bool" and expect is not None and val[1] == expect
        ctx.check(ok, "C07.D2.is_valid-truth-table", "is_valid:row:" + desc,
                  "is_valid path [%s] returns %s (expected %s: valid iff not reserved ∧ namespace matches ∧ topic matches)" % (desc, val[1] if val[0] == "bool" else "?", expect), iv.span)
    ctx.check(trues == 1, "C07.D2.is_valid-single-accept", "is_valid:accepting-paths", "is_valid returns true on exactly one path (found %d)" % trues, iv.span)
    # create() goes through is_valid
    cr = F.body(TN + "::create")
    ctx.touch(cr)
    cr = F.inlined(cr, keep=(TN + "::is_valid",))
    ivc = cr.calls_to(TN + "::is_valid")
    okc = False
    if ivc:
        for i, b in enumerate(cr.blocks):
            sc = flow.switch_condition(cr, i)
            if sc and sc.get("kind") == "call" and sc["call"] is ivc[0]:
                bad_edge = sc["true"] if sc.get("neg") else sc["false"]
                r = cr.reachable(bad_edge)
                okc = not [1 for _, _, _, rv, _ in K.aggregates(cr, "core::result::Result", r) if rv["variant"] == "Ok"]
    if ivc and not okc:
        # `s.is_valid().then_some(s).ok_or(err)`: the Ok value exists only when the test held
        for c in cr.calls():
            if strip_generics(c.callee) in ("core::bool::<impl bool>::then_some", "core::bool::<impl bool>::then") and flow.root(cr, c.args[0])[0] == "call" and flow.root(cr, c.args[0])[1] is ivc[0]:
                tv = flow.derived(cr, {c.dest["l"]}, calls=("core::option::Option::ok_or", "core::option::Option::ok_or_else"))
                # (ok_or may have been written out by the inliner: its Ok(payload) is fine when the payload is then_some's)
                oks = [1 for _, _, _, rv, _ in K.aggregates(cr, "core::result::Result") if rv["variant"] == "Ok" and not any(op_local(o) in tv for o in rv["ops"])]
                if (0 in tv or K.return_locals(cr) & tv) and not oks:
                    okc = True
    ctx.check(okc, "C07.D2.create-validates", "create:not-validated", "TopicName::create returns Ok only when is_valid() holds", cr.span)


def d3(ctx, F, top):
    bodies = [F.one_body(r"^<selium_protocol::topic_name::TopicName as core::convert::TryFrom<&str>>::try_from$"),
              F.body(TN + "::create"), F.body(TN + "::is_valid"),
              F.one_body(r"^<selium_protocol::topic_name::TopicName as core::fmt::Display>::fmt$")]
    bodies += F.closures_of(bodies[0])
    # private helpers of the parsers (e.g. an `is_reserved()` predicate) belong to them
    reg = F.region(bodies)
    bodies = bodies + [b for p_, b in sorted(reg.items()) if b not in bodies and b.crate == "selium_protocol" and "topic_name" in p_]
    ngroups = 2 if top is None else 0
    if top is not None:
        ngroups = sum(1 for n in top.inner() if n[0] == literals.SUBPATTERN)

    def capture_unwrap(site, body):
        # D6-as-rule: captures.get(i).unwrap() where i <= number of non-optional groups of the literal that produced `captures`
        if site.kind != "unwrap" or not site.what.startswith("Option"):
            return None
        r = flow.root(body, site.call.args[0], through_calls=())
        if r[0] == "call" and strip_generics(r[1].callee) == "regex::regex::string::Captures::get":
            i = flow.const_of(r[1].args[1])
            if i is not None and i <= ngroups:
                return "D6: capture group %d exists and is not optional in the parsed literal (%d groups)" % (i, ngroups)
        return None
    sites = panics.analyse(ctx, bodies, "C07.D3.no-panic", extra_rules=[capture_unwrap], include_alloc=False)
    ctx.floor("C07.D3.no-panic.bodies", len(bodies), 4)


def d4(ctx, F):
    hs = K.handle_stream_body(ctx, F)
    ctx.touch(hs)
    ivc = hs.calls_to(TN + "::is_valid")
    if not ctx.check(len(ivc) == 1, "C07.D4.server-validates", "handle_stream:no-is_valid", "handle_stream calls TopicName::is_valid once", hs.span):
        return
    iv = ivc[0]
    sc = None
    for i, b in enumerate(hs.blocks):
        s = flow.switch_condition(hs, i)
        if s and s.get("kind") == "call" and s["call"] is iv:
            sc = s
            sbb = i
    if not ctx.check(sc is not None, "C07.D4.server-validates", "handle_stream:is_valid-unused", "the result of is_valid() decides a branch", iv.span):
        return
    good_edge = sc["false"] if sc.get("neg") else sc["true"]
    bad_edge = sc["true"] if sc.get("neg") else sc["false"]
    # the name validated is the one from this stream's first frame
    gt = hs.calls_to("selium_protocol::frame::Frame::get_topic")
    tvals = flow.derived(hs, {gt[0].dest["l"]}, calls="adapters") if gt else set()
    ctx.check(bool(gt) and op_local(iv.args[0]) in tvals, "C07.D4.server-validates", "handle_stream:validates-other-name",
              "is_valid is applied to the TopicName returned by frame.get_topic() of this stream", iv.span)
    guarded = []
    for c in hs.calls():
        n = strip_generics(c.callee)
        if n in ("tokio::sync::mutex::Mutex::lock", "std::collections::hash::map::HashMap::contains_key", "std::collections::hash::map::HashMap::insert",
                 "std::collections::hash::map::HashMap::get_mut", "std::collections::hash::map::HashMap::get", "selium_server::topic::Sender::send", "tokio::task::spawn::spawn",
                 "selium_server::topic::pubsub::Topic::pair", "selium_server::topic::reqrep::Topic::pair"):
            guarded.append(c)
    ctx.floor("C07.D4.server-validates.guarded-ops", len(guarded), 6)
    bad_reach = hs.reachable(bad_edge)
    for c in guarded:
        ok = hs.dominates(sbb, c.bb) and c.bb not in flow.reach_avoiding(hs, [bad_edge], [sbb])
        ctx.check(ok, "C07.D4.server-validates", "handle_stream:unvalidated:%s" % strip_generics(c.callee).rsplit("::", 2)[-2] + "::" + c.name(),
                  "%s happens only after the topic name passed is_valid()" % c.name(), c.span)
    # the invalid edge sends Frame::Error{code: INVALID_TOPIC_NAME} and never Frame::Ok
    excl = bad_reach - hs.reachable(good_edge)
    errs = [(i, rv) for i, j, pl, rv, s in K.aggregates(hs, "selium_protocol::frame::ErrorPayload", excl)]
    def _item(op):
        if op.get("item"):
            return op["item"]
        r = flow.root(hs, op) if op.get("k") in ("copy", "move") else None        # (the code passed to a shared `refuse` helper)
        return r[1].get("item") if r and r[0] == "const" else None
    code_ok = any(_item(rv["ops"][rv["fields"].index("code")]) == "selium_protocol::error_codes::INVALID_TOPIC_NAME" for _, rv in errs)
    ctx.check(code_ok, "C07.D4.error-code", "handle_stream:invalid-topic-wrong-code",
              "the refusal carries code INVALID_TOPIC_NAME", iv.span)
    frames = [rv["variant"] for i, j, pl, rv, s in K.aggregates(hs, "selium_protocol::frame::Frame", excl)]
    sends = [c for c in hs.calls() if c.bb in excl and strip_generics(c.callee) == "futures_util::sink::SinkExt::send"]
    resets = [c for c in hs.calls() if c.bb in excl and c.name() in ("shutdown_sink", "shutdown_stream", "reset", "stop")]
    ctx.check(not resets, "C07.D4.refusal-readable", "handle_stream:refusal-then-reset",
              "after the refusal frame the stream is left to finish normally: no reset / stop that would discard the frame before the peer reads it (%s)"
              % (", ".join(sorted({c.name() for c in resets})) or "none"), (resets or [iv])[0].span)
    ctx.check(frames == ["Error"] and len(sends) == 1, "C07.D4.refusal", "handle_stream:invalid-topic-not-refused",
              "the invalid-name edge sends exactly one frame, a Frame::Error (found frames %s, %d send)" % (frames, len(sends)), iv.span)
    # building and sending the refusal must not panic either (a panic in the per-stream task is swallowed by the runtime: the peer
    # would get end-of-stream instead of the error frame)
    from .. import panics as _pn
    _pn.analyse(ctx, [hs], "C07.D4.refusal-no-panic", skip=lambda site: site.bb not in excl, include_alloc=False)
    # the refusal is reachable: nothing in front of the server's own check (serde, the frame decoder) already rejects such a name
    from . import c05
    c05.d1_serde_plain(ctx, F)
    c05.d1_decoder_plain(ctx, F, "C07.D4")
    # error codes pairwise distinct
    codes = {p: c["value"].get("int") for p, c in F.consts.items() if p.startswith("selium_protocol::error_codes::") and "value" in c}
    ctx.floor("C07.D4.error-codes", len(codes), 7)
    ctx.check(len(set(codes.values())) == len(codes), "C07.D4.error-codes-distinct", "error-codes-collide",
              "the %d error-code constants are pairwise distinct" % len(codes))


def d5(ctx, F):
    need = {"core::hash::Hash": False, "core::cmp::PartialEq": False, "core::cmp::Eq": False}
    for i in F.impls_of(self_adt=TN):
        t = i.get("trait")
        if t in need:
            need[t] = i["derived"]
            ctx.check(i["derived"], "C07.D5.derived-identity", "topicname-handwritten:%s" % t.rsplit("::", 1)[-1],
                      "TopicName's %s impl is the derived one (compares/hashes both namespace and topic)" % t, i["span"])
    ctx.floor("C07.D5.derived-identity.impls", sum(1 for v in need.values() if v), 3)
    hs = K.handle_stream_body(ctx, F)
    gt = hs.calls_to("selium_protocol::frame::Frame::get_topic")
    tvals = flow.derived(hs, {gt[0].dest["l"]}, calls="adapters") if gt else set()
    ops = [c for c in hs.calls() if strip_generics(c.callee) in ("std::collections::hash::map::HashMap::contains_key", "std::collections::hash::map::HashMap::insert",
                                                               "std::collections::hash::map::HashMap::get_mut", "std::collections::hash::map::HashMap::get") and "TopicName" in c.full]
    ctx.floor("C07.D5.map-key.ops", len(ops), 2) if ops else None
    # "look the topic up, create it if absent" is atomic: the existence test and the insert use the same acquisition of the registry
    # lock. With two acquisitions, two first registrations of one name each create a router and the second insert orphans the first
    # router together with the peers already attached to it.
    locks = [a for a in flow.awaits(hs) if a.source is not None and strip_generics(a.source.callee) == "tokio::sync::mutex::Mutex::lock"]
    def acquisition(c):
        hit = [a for a in locks if op_local(c.args[0]) in flow.derived(hs, {a.poll.dest["l"]}, calls="adapters")]
        return hit[0].poll.bb if len(hit) == 1 else None
    tests_ = [c for c in hs.calls() if strip_generics(c.callee) in ("std::collections::hash::map::HashMap::contains_key", "std::collections::hash::map::HashMap::get",
                                                                   "std::collections::hash::map::HashMap::entry") and "topic::Sender" in c.full]
    ins_ = [c for c in hs.calls() if strip_generics(c.callee) == "std::collections::hash::map::HashMap::insert" and "topic::Sender" in c.full]
    acq_t = {acquisition(c) for c in tests_}
    acq_i = {acquisition(c) for c in ins_}
    ctx.check(bool(ins_) and None not in acq_i and acq_i <= acq_t and len(acq_i) == 1, "C07.D5.lookup-insert-atomic", "handle_stream:check-then-insert",
              "the topic's existence test and its insertion happen under one acquisition of the registry lock (tests under %s, inserts under %s)" % (sorted(x for x in acq_t if x is not None), sorted(x for x in acq_i if x is not None)),
              (ins_ or [hs])[0].span)
    # the registry that maps names to routers is keyed by the whole TopicName (derived Eq/Hash over namespace and topic), not by a
    # digest or a rendering of it: every HashMap whose values are topic channels (topic::Sender) must have K = TopicName
    allmaps = [c for c in hs.calls() if strip_generics(c.callee).startswith("std::collections::hash::map::HashMap::") and "topic::Sender" in c.full]
    ctx.check(len(allmaps) >= 2, "C07.D5.map-key-type", "handle_stream:no-topic-map", "handle_stream looks topics up in a map of topic channels (%d operations)" % len(allmaps), hs.span)
    for c in allmaps:
        ctx.check("HashMap::<selium_protocol::topic_name::TopicName," in c.full.replace(" ", "").replace("HashMap::<selium_protocol::topic_name::TopicName,", "HashMap::<selium_protocol::topic_name::TopicName,"),
                  "C07.D5.map-key-type", "handle_stream:map-key-type:%s" % c.name(),
                  "the topic registry is keyed by TopicName itself (found %s)" % c.full[:120], c.span)
    for c in ops:
        ctx.check(op_local(c.args[1]) in tvals, "C07.D5.map-key", "handle_stream:map-key:%s" % c.name(),
                  "topic map %s is keyed by this stream's TopicName" % c.name(), c.span)


def run(ctx):
    F = ctx.facts("quick")
    if ctx.tier == "thorough":
        # --all-features turns on `__notopiccheck` (client-side reserved-prefix test compiled out by design) and `__cloud`;
        # the grammar, the server-side validator and the panic-freedom rules must hold there as well
        FF = ctx.facts("allfeatures")
        d1(ctx, FF)
        d3(ctx, FF, None)
        iv = FF.body(TN + "::is_valid")
        ctx.check(len(iv.calls_to("core::str::<impl str>::starts_with")) == 1, "C07.D2.reserved-is_valid[all-features]", "is_valid:reserved-test-missing[all-features]",
                  "is_valid (the server-side rule) still tests the reserved namespace with --all-features", iv.span)
    top = d1(ctx, F)
    d2(ctx, F)
    d3(ctx, F, top)
    d4(ctx, F)
    d5(ctx, F)
