"""C05 — wire formats: tag bijection, length prefix = bytes written, 1 MiB limit both ways
before buffering, reassembly guard, batch reader mirrors batch writer."""
from .. import flow
from ..facts import strip_generics, op_local
from . import common as K

EXPLANATION = (
    "Structural necessary conditions of the wire-format property, decided on MIR: (D1) the variant->tag table of "
    "Frame::get_type and the tag->variant table of TryFrom<(u8,BytesMut)> are inverse bijections over all 8 kinds; "
    "(D2) per variant, get_length measures exactly what write_to_bytes writes (serialized_size<->serialize_into on the "
    "same payload, len<->extend_from_slice, 0<->nothing), encoder writes put_u64(length), put_u8(type), payload in that "
    "order, decoder reads the prefix big-endian from the first 8 bytes; (D3) validate_payload_length (length > 1 MiB "
    "=> Err) dominates every write in encode and every reserve/consume in decode and its Err edge leaves the function; "
    "(D4) no consuming call on the source buffer on a path returning Ok(None) and the 'need more' exit is guarded by "
    "src.len()-9 < length; (D5) the batch reader's primitive sequence mirrors the batch writer's. Value-level round-trip "
    "equality and bincode's own correctness are NOT decided.")
ASSUMPTIONS = ["bincode's serialized_size agrees with serialize_into for the same value and options (third-party)",
               "bytes::BufMut::put_u64 / u64::from_be_bytes / Buf::get_u64 are big-endian (std/bytes semantics)"]

FRAME = "selium_protocol::frame::Frame"
TRY_FROM = "<selium_protocol::frame::Frame as core::convert::TryFrom<(u8, bytes::bytes_mut::BytesMut)>>::try_from"


def limit_fn(F):
    """the function that enforces the frame size limit — found by what it does (it is the one place in selium_protocol that builds
    ProtocolError::PayloadTooLarge), not by its (private) name"""
    from ..facts import AnchorMissing
    c = [b for p_, b in sorted(F.bodies.items()) if b.crate == "selium_protocol" and b.kind in ("Fn", "AssocFn") and not b.is_coroutine and
         any(rv.get("variant") == "PayloadTooLarge" for i, j, pl, rv, s in K.aggregates(b, "selium_std::errors::ProtocolError"))]
    if len(c) != 1:
        return None          # no separate helper (the test is written out in encode / decode): nothing to keep
    return c[0]


def FRAME_CTORS(F):
    """inherent constructors of Frame from the wire parts (kept as calls next to the TryFrom impl)"""
    return [p_ for p_, b_ in F.bodies.items() if p_.startswith("selium_protocol::frame::Frame::") and "{closure" not in p_ and b_.nargs == 2 and
            b_.local_ty(1) == "u8" and "BytesMut" in b_.local_ty(2)]


def dec_keep(F):
    lf = limit_fn(F)
    return ((lf.path,) if lf is not None and "codec::MessageCodec" not in lf.path else ()) + (TRY_FROM,) + tuple(FRAME_CTORS(F))
VARIANTS = ["RegisterPublisher", "RegisterSubscriber", "RegisterReplier", "RegisterRequestor",
            "Message", "BatchMessage", "Error", "Ok"]
CONSUMERS = {"bytes::buf::buf_impl::Buf::advance", "bytes::buf::buf_impl::Buf::get_u8", "bytes::bytes_mut::BytesMut::split_to",
             "bytes::bytes_mut::BytesMut::split_off", "bytes::bytes_mut::BytesMut::clear", "bytes::bytes_mut::BytesMut::truncate",
             "bytes::bytes_mut::BytesMut::split", "bytes::buf::buf_impl::Buf::copy_to_bytes", "bytes::buf::buf_impl::Buf::copy_to_slice"}
BE_WRITE = {"bytes::buf::buf_mut::BufMut::put_u64": "be", "bytes::buf::buf_mut::BufMut::put_u64_le": "le",
            "bytes::buf::buf_mut::BufMut::put_u64_ne": "ne"}
BE_READ = {"bytes::buf::buf_impl::Buf::get_u64": "be", "bytes::buf::buf_impl::Buf::get_u64_le": "le",
           "bytes::buf::buf_impl::Buf::get_u64_ne": "ne", "core::num::<impl u64>::from_be_bytes": "be",
           "core::num::<impl u64>::from_le_bytes": "le", "core::num::<impl u64>::from_ne_bytes": "ne"}


def is_consumer(c):
    n = strip_generics(c.callee)
    if n in CONSUMERS:
        return True
    if n.startswith("bytes::buf::buf_impl::Buf::get_") or n.startswith("bytes::buf::buf_impl::Buf::copy_to"):
        # a read cursor over a borrowed slice (`let mut peek = &src[..8]; peek.get_u64()`) consumes the cursor, not the buffer
        st = (c.self_ty or "")
        return not (st.startswith("&[") or st.startswith("&'") and "[u8]" in st or st == "[u8]")
    return False


def get_type_table(ctx, F):
    b = F.body("selium_protocol::frame::Frame::get_type")
    ctx.touch(b)
    b = F.inlined(b)            # `self.kind().marker()`-style helpers are looked through
    sws = K.find_variant_switches(b, FRAME)
    if len(sws) != 1:
        ctx.fail("C05.D1.tag-table", "get_type:shape", "Frame::get_type is not a single match over the frame kind", b.span)
        return {}
    arms, adt, pl, other, allv = K.arm_map(b, sws[0])
    # locals whose value is what the function returns (through plain copies, casts and From/Into conversions)
    retv = {0}
    enumv = {}          # locals holding a value of a field-less enum whose discriminant (cast to the tag type) is what is returned
    grew = True
    while grew:
        grew = False
        for i, j, p, rv, s in b.assigns():
            if p["l"] in retv and not p["p"] and rv["k"] in ("use", "cast") and rv["op"].get("k") in ("copy", "move") and not rv["op"]["pl"]["p"] and rv["op"]["pl"]["l"] not in retv:
                retv.add(rv["op"]["pl"]["l"])
                grew = True
            if p["l"] in retv and not p["p"] and rv["k"] == "discr" and not rv["pl"]["p"] and rv["pl"]["l"] not in enumv and rv.get("adt") in F.adts:
                enumv[rv["pl"]["l"]] = rv["adt"]
                grew = True
            if p["l"] in enumv and not p["p"] and rv["k"] == "use" and rv["op"].get("k") in ("copy", "move") and not rv["op"]["pl"]["p"] and rv["op"]["pl"]["l"] not in enumv:
                enumv[rv["op"]["pl"]["l"]] = enumv[p["l"]]
                grew = True
        for c in b.calls():
            if c.dest is not None and c.dest["l"] in retv and strip_generics(c.callee) in ("core::convert::From::from", "core::convert::Into::into") and c.args and op_local(c.args[0]) is not None \
                    and op_local(c.args[0]) not in retv:
                retv.add(op_local(c.args[0]))
                grew = True
    table = {}
    for v, blocks in arms.items():
        vals = []
        for i, j, p, rv, s in K.assigns_in(b, blocks):
            if p["l"] in retv and not p["p"] and rv["k"] == "use":
                c = flow.const_of(rv["op"])
                if c is not None:
                    vals.append((c, rv["op"].get("item"), s["span"]))
            if p["l"] in enumv and not p["p"] and rv["k"] == "agg" and rv.get("adt") == enumv[p["l"]] and not rv.get("ops"):
                # the tag is the discriminant of a private `#[repr(u8)]` kind enum
                dv = [v_["discr"] for v_ in F.adt(rv["adt"])["variants"] if v_["name"] == rv["variant"] and not v_.get("fields")]
                if dv:
                    vals.append((dv[0], "%s::%s" % (rv["adt"], rv["variant"]), s["span"]))
        if len(vals) == 1:
            table[v] = vals[0]
        else:
            ctx.fail("C05.D1.tag-table", "get_type:%s" % v, "Frame::get_type: variant %s does not map to exactly one constant tag" % v, b.span)
    return table


def try_from_table(ctx, F):
    b0 = F.one_body(r"^<selium_protocol::frame::Frame as core::convert::TryFrom<\(u8, bytes::bytes_mut::BytesMut\)>>::try_from$")
    ctx.touch(b0)
    b = F.inlined(b0)           # helpers and `.map(Frame::Variant)`-style constructions are written out
    # the integer switch over the tag byte
    cands = []
    for i, bl in enumerate(b.blocks):
        t = bl["term"]
        if not bl.get("cleanup") and t["k"] == "switch" and t.get("discr_ty") == "u8":
            cands.append(i)
    if len(cands) != 1:
        ctx.fail("C05.D1.tag-table", "try_from:shape", "Frame::try_from does not switch exactly once on the tag byte (%d switches)" % len(cands), b.span)
        return {}, b
    t = b.term(cands[0])
    regs = K.exclusive_regions(b, [x[1] for x in t["targets"]] + [t["otherwise"]], cands[0])
    table = {}
    for val, tgt in t["targets"]:
        aggs = K.aggregates(b, FRAME, regs[tgt])
        names = sorted({rv["variant"] for _, _, _, rv, _ in aggs})
        if len(names) == 1:
            table[val] = (names[0], aggs[0][4]["span"])
        else:
            ctx.fail("C05.D1.tag-table", "try_from:tag%d" % val, "Frame::try_from: tag %d builds %s (expected exactly one frame kind)" % (val, names or "nothing"), b.span)
    # the decoder refuses a known tag only where the payload encoding itself can be malformed: every `?` of an arm is fed by that arm's
    # bincode::deserialize; an arm without one (opaque bytes, no payload) cannot fail — the encoder accepts any bytes there
    ib = F.inlined(b)
    isw = [i for i, bl in enumerate(ib.blocks) if not bl.get("cleanup") and bl["term"]["k"] == "switch" and bl["term"].get("discr_ty") == "u8"]
    if ctx.check(len(isw) == 1, "C05.D1.decode-total", "try_from:shape-inlined", "Frame::try_from (helpers inlined) switches once on the tag byte", b.span):
        it = ib.term(isw[0])
        iregs = K.exclusive_regions(ib, [x[1] for x in it["targets"]] + [it["otherwise"]], isw[0])
        for val, tgt in it["targets"]:
            reg = iregs[tgt]
            cs = K.calls_in(ib, reg)
            des = [c for c in cs if strip_generics(c.callee).startswith("bincode::") and c.dest is not None]
            fed = flow.derived(ib, {c.dest["l"] for c in des}, calls="all") if des else set()
            # (a `?` whose outcome is already decided — threaded to its Continue edge — has no reachable from_residual)
            exits = [c for c in cs if strip_generics(c.callee) == "core::ops::try_trait::FromResidual::from_residual" and not any(op_local(a) in fed for a in c.args)]
            errs = [s for _, _, pl_, rv, s in K.assigns_in(ib, reg) if rv["k"] == "agg" and rv.get("agg") == "adt" and rv.get("adt") == "core::result::Result" and rv.get("variant") == "Err"
                    and not any(op_local(o) in fed for o in rv.get("ops", []))]
            ctx.check(not exits and not errs, "C05.D1.decode-total", "try_from:extra-refusal:tag%d" % val,
                      "Frame::try_from, tag %d: the only refusal is a payload that bincode cannot decode (%s)" % (val, "none here" if not des else "%d deserialize call(s)" % len(des)),
                      (exits[0].span if exits else errs[0].get("span", b.span) if errs else b.span))
    # unknown tags must not build a frame
    aggs = K.aggregates(b, FRAME, regs[t["otherwise"]])
    ctx.check(not aggs, "C05.D1.unknown-tag", "try_from:unknown-tag-builds-frame",
              "an unknown tag byte yields an error, never a frame", b.span)
    return table, b


def d1(ctx, F):
    enc = get_type_table(ctx, F)
    dec, _ = try_from_table(ctx, F)
    ctx.floor("C05.D1.tag-table.variants", len(enc), 8)
    ctx.floor("C05.D1.tag-table.tags", len(dec), 8)
    tags = [v[0] for v in enc.values()]
    ctx.check(len(set(tags)) == len(tags), "C05.D1.tags-distinct", "get_type:duplicate-tag",
              "the %d tags written by the encoder are pairwise distinct: %s" % (len(tags), sorted(tags)))
    for v in sorted(enc):
        tag, item, sp = enc[v]
        back = dec.get(tag)
        ctx.check(back is not None and back[0] == v, "C05.D1.inverse", "tag-table:%s" % v,
                  "encoder writes tag %s (%s) for %s; decoder maps tag %s to %s" % (tag, item, v, tag, back[0] if back else "<error>"), sp)
    for tag in sorted(dec):
        v, sp = dec[tag]
        ctx.check(v in enc and enc[v][0] == tag, "C05.D1.inverse", "tag-table:dec%d" % tag,
                  "decoder maps tag %d to %s; encoder writes %s for it" % (tag, v, enc.get(v, ("<none>",))[0]), sp)


def payload_binding(b, blocks, variant):
    """locals bound to the variant's payload field inside an arm (`(*self) as V.0`)"""
    out = set()
    for i, j, pl, rv, s in K.assigns_in(b, blocks):
        for p in ([rv["pl"]] if rv["k"] in ("ref",) else [o["pl"] for o in [rv.get("op")] if o and o.get("k") in ("copy", "move")]):
            for e in p["p"]:
                if isinstance(e, dict) and e.get("vn") == variant:
                    out.add(pl["l"])
    return out


def d2(ctx, F):
    gl = F.inlined(F.body("selium_protocol::frame::Frame::get_length"))
    wb = F.inlined(F.body("selium_protocol::frame::Frame::write_to_bytes"))
    ctx.touch(gl, wb)
    kinds = {}
    for b, tag in ((gl, "len"), (wb, "write")):
        sws = K.find_variant_switches(b, FRAME)
        if len(sws) != 1:
            ctx.fail("C05.D2.length-agrees", "%s:shape" % tag, "%s is not a single match over the frame kind" % b.path, b.span)
            return
        arms, adt, pl, other, allv = K.arm_map(b, sws[0])
        for v, blocks in arms.items():
            bind = payload_binding(b, blocks, v)
            der = flow.derived(b, bind, calls="adapters") if bind else set()
            ops = []
            for c in K.calls_in(b, blocks):
                n = strip_generics(c.callee)
                on_payload = any(op_local(a) in der for a in c.args)
                if n in ("bincode::serialized_size", "bincode::internal::serialized_size"):
                    ops.append(("bincode", on_payload, c.span))
                elif n == "bincode::serialize_into":
                    ops.append(("bincode", on_payload, c.span))
                elif n in ("bytes::bytes::Bytes::len",) and tag == "len":
                    ops.append(("raw", on_payload, c.span))
                elif n in ("bytes::bytes_mut::BytesMut::extend_from_slice", "bytes::buf::buf_mut::BufMut::put_slice", "bytes::buf::buf_mut::BufMut::put") and tag == "write":
                    ops.append(("raw", on_payload, c.span))
                elif n.startswith("bincode::") or n.startswith("bytes::buf::buf_mut::BufMut::put"):
                    ops.append(("other:" + n, on_payload, c.span))
            # the payload measured / written is the frame's own: neither function edits it first (one of them normalising the
            # payload makes the prefix disagree with the bytes that follow)
            edits = []
            for i, j, pl, rv, s in K.assigns_in(b, blocks):
                if pl["l"] in der and pl["p"] and "*" not in pl["p"][:1]:
                    edits.append(s.get("span", b.span))
                if rv["k"] == "ref" and rv.get("mut") and rv["pl"]["l"] in der:
                    edits.append(s.get("span", b.span))
            ctx.check(not edits, "C05.D2.payload-unmodified", "%s-edits-payload:%s" % (tag, v),
                      "%s: %s serialises the payload as it is in the frame (no store into it, no &mut of it)" % (v, b.path.rsplit("::", 1)[-1]),
                      (edits or [b.span])[0])
            kinds.setdefault(v, {})[tag] = ops
            kinds[v].setdefault("has_payload", False)
            kinds[v]["has_payload"] = kinds[v]["has_payload"] or bool(bind)
    ctx.floor("C05.D2.length-agrees.variants", len(kinds), 8)
    for v in sorted(kinds):
        l, w = kinds[v].get("len", []), kinds[v].get("write", [])
        lk = [(k, p) for k, p, _ in l]
        wk = [(k, p) for k, p, _ in w]
        good = lk == wk and all(p for _, p in lk) and len(lk) <= 1 and (len(lk) == 1 or not kinds[v].get("has_payload"))
        sp = (l or w or [(0, 0, gl.span)])[0][2]
        ctx.check(good, "C05.D2.length-agrees", "length-vs-write:%s" % v,
                  "%s: get_length measures %s, write_to_bytes writes %s (must be the same encoding of the same payload)"
                  % (v, lk or "constant 0", wk or "nothing"), sp)
    # get_length constant arm must be 0 when nothing is written
    # bincode configuration: only the default-options free functions anywhere in the protocol crate
    bad = []
    n = 0
    for p, b in F.bodies.items():
        if b.crate != "selium_protocol":
            continue
        for c in b.calls():
            s = strip_generics(c.callee)
            if s.startswith("bincode::"):
                n += 1
                if s not in ("bincode::serialized_size", "bincode::serialize_into", "bincode::deserialize", "bincode::serialize"):
                    bad.append(c)
    ctx.floor("C05.D2.bincode-config.sites", n, 3)
    for c in bad:
        ctx.fail("C05.D2.bincode-config", "bincode-nondefault:%s:%s" % (c.body.path, strip_generics(c.callee)),
                 "bincode entry point %s is not one of the default-options free functions used by the sibling side" % c.callee, c.span)
    if not bad:
        ctx.ok("C05.D2.bincode-config", "all %d bincode call sites in selium_protocol use the default-options free functions" % n)

    # encoder layout
    enc = F.inlined(F.one_body(r"^<selium_protocol::codec::MessageCodec as tokio_util::codec::encoder::Encoder<selium_protocol::frame::Frame>>::encode$"),
                   keep=("selium_protocol::frame::Frame::get_length", "selium_protocol::frame::Frame::get_type", "selium_protocol::frame::Frame::write_to_bytes"))
    ctx.touch(enc)
    glc = enc.calls_to("selium_protocol::frame::Frame::get_length")
    gtc = enc.calls_to("selium_protocol::frame::Frame::get_type")
    p64 = [c for c in enc.calls() if strip_generics(c.callee) in BE_WRITE]
    p8 = enc.calls_to("bytes::buf::buf_mut::BufMut::put_u8")
    wtb = enc.calls_to("selium_protocol::frame::Frame::write_to_bytes")
    shape = len(glc) == 1 and len(gtc) == 1 and len(p64) == 1 and len(p8) == 1 and len(wtb) == 1
    if not ctx.check(shape, "C05.D2.encoder-layout", "encode:shape",
                     "encode calls get_length, get_type, one u64 put, put_u8 and write_to_bytes exactly once each", enc.span):
        return
    length_vals = flow.derived(enc, {glc[0].dest["l"]}, calls="adapters")
    type_vals = flow.derived(enc, {gtc[0].dest["l"]}, calls="adapters")
    ctx.check(op_local(p64[0].args[1]) in length_vals, "C05.D2.encoder-layout", "encode:prefix-not-length",
              "the u64 prefix written is the value returned by get_length", p64[0].span)
    ctx.check(op_local(p8[0].args[1]) in type_vals, "C05.D2.encoder-layout", "encode:type-not-get_type",
              "the type byte written is the value returned by get_type", p8[0].span)
    ctx.check(enc.dominates(p64[0].bb, p8[0].bb) and enc.dominates(p8[0].bb, wtb[0].bb) and p64[0].bb != p8[0].bb,
              "C05.D2.encoder-layout", "encode:order", "encoder writes length, then type, then payload", p64[0].span)
    wend = BE_WRITE[strip_generics(p64[0].callee)]
    # decoder prefix read
    dec = F.inlined(F.one_body(r"^<selium_protocol::codec::MessageCodec as tokio_util::codec::decoder::Decoder>::decode$"), keep=dec_keep(F))
    ctx.touch(dec)
    rd = [c for c in dec.calls() if strip_generics(c.callee) in BE_READ]
    if ctx.check(len(rd) == 1, "C05.D2.prefix-endianness", "decode:prefix-read-shape", "decoder reads the u64 prefix exactly once", dec.span):
        rend = BE_READ[strip_generics(rd[0].callee)]
        ctx.check(rend == wend, "C05.D2.prefix-endianness", "prefix-endianness",
                  "encoder writes the length prefix %s-endian, decoder reads it %s-endian" % (wend, rend), rd[0].span)
        # bytes come from src[..LEN_MARKER_SIZE]
        if strip_generics(rd[0].callee).startswith("core::num"):
            idx = [c for c in dec.calls() if strip_generics(c.callee) == "core::ops::index::Index::index"]
            okr = False
            for c in idx:
                r = flow.root(dec, c.args[1])
                if r[0] == "rv" and r[1]["k"] == "agg" and r[1].get("adt", "").endswith("RangeTo"):
                    v = flow.const_of(r[1]["ops"][0])
                    okr = okr or v == 8
            ctx.check(okr, "C05.D2.prefix-position", "decode:prefix-range", "the prefix is taken from the first 8 bytes (src[..LEN_MARKER_SIZE])", rd[0].span)


def d1_serde_plain(ctx, F):
    """frames carrying any topic name round-trip: (de)serialising a TopicName is field-by-field, with no validation or normalisation hooked
    into serde (`#[serde(try_from = ..)]`, custom Deserialize) — the server must be able to decode a registration for an invalid name in
    order to refuse it, and reserved names are used deliberately by feature-gated code"""
    TN = "selium_protocol::topic_name::TopicName"
    for tr in ("serde::ser::Serialize", "serde::de::Deserialize"):
        ims = [i for i in F.impls_of(self_adt=TN) if i.get("trait") == tr]
        if not ctx.check(len(ims) == 1 and ims[0]["derived"], "C05.D1.serde-plain", "topicname-serde-handwritten:%s" % tr.rsplit("::", 1)[-1],
                         "TopicName's %s impl is the derived one" % tr):
            continue
        bodies = [F.bodies[p_] for p_ in ims[0]["items"].values() if p_ in F.bodies]
        reg = F.region(bodies)
        hooks = sorted({c.name() for b in reg.values() for c in b.calls()
                        if strip_generics(c.callee).startswith(TN + "::") or ("TryFrom" in c.callee and "TopicName" in (c.full or "")) or strip_generics(c.callee).endswith("::is_valid")})
        ctx.touch(*bodies)
        ctx.check(not hooks, "C05.D1.serde-plain", "topicname-serde-hook:%s" % tr.rsplit("::", 1)[-1],
                  "TopicName's derived %s does not route through a validating conversion (%s)" % (tr.rsplit("::", 1)[-1], hooks or "none"))


def d1_decoder_plain(ctx, F, prefix="C05.D1"):
    """the frame decoder turns bytes into frames and nothing else: it applies no topic-name validation (the server must *see* an invalid
    registration to answer it with INVALID_TOPIC_NAME; reserved names are legitimate in feature-gated builds)"""
    tf = F.one_body(r"^<selium_protocol::frame::Frame as core::convert::TryFrom<\(u8, bytes::bytes_mut::BytesMut\)>>::try_from$")
    ctx.touch(tf)
    reg = F.region([tf])
    hooks = sorted({c.name() for b in reg.values() for c in b.calls() if strip_generics(c.callee).startswith("selium_protocol::topic_name::TopicName::") or
                    ("TopicName" in (c.full or "") and "TryFrom" in c.callee)})
    ctx.check(not hooks, prefix + ".decoder-plain", "frame-decoder-validates", "Frame::try_from decodes without judging topic names (%s)" % (hooks or "no validation calls"), tf.span)


def d3(ctx, F):
    """the 1 MiB limit, both directions. Evaluated on encode / decode with their private helpers inlined, so it does not matter whether the
    test lives in a helper (whatever its name) or in the codec methods themselves."""
    LIMIT = 1048576
    enc0 = F.one_body(r"^<selium_protocol::codec::MessageCodec as tokio_util::codec::encoder::Encoder<selium_protocol::frame::Frame>>::encode$")
    dec0 = F.one_body(r"^<selium_protocol::codec::MessageCodec as tokio_util::codec::decoder::Decoder>::decode$")
    ctx.touch(enc0, dec0)
    frame_api = [p_ for p_ in F.bodies if p_.startswith("selium_protocol::frame::Frame::")] + [TRY_FROM]
    for b0, side in ((enc0, "encode"), (dec0, "decode")):
        b = F.inlined(b0, keep=frame_api)
        guards = []
        from .. import panics as _p
        dbg = _p.debug_assert_blocks(b)
        for i, bl in enumerate(b.blocks):
            if bl.get("cleanup") or bl.get("dead") or i in dbg or any("assert" in m for m in bl["term"].get("macros", [])):
                continue
            sc = flow.switch_condition(b, i)
            if not (sc and sc.get("kind") == "cmp"):
                continue
            ra, rb_ = flow.root(b, sc["a"]) if sc["a"].get("k") != "const" else ("const", sc["a"]), flow.root(b, sc["b"]) if sc["b"].get("k") != "const" else ("const", sc["b"])
            op = sc["op"]
            val = None
            if rb_[0] == "const" and flow.const_of(rb_[1]) == LIMIT:
                val = sc["a"]
            elif ra[0] == "const" and flow.const_of(ra[1]) == LIMIT:
                val, op = sc["b"], flow._FLIP[op]
            if val is not None:
                guards.append((i, sc, op, val))
        if not ctx.check(len(guards) == 1, "C05.D3.limit-enforced", "%s:no-validate" % side,
                         "%s compares a length with the 1 MiB limit exactly once (found %d comparisons)" % (side, len(guards)), b0.span):
            continue
        gbb, sc, op, val = guards[0]
        # value `op` LIMIT holds on the true edge
        if op in ("Gt", "Ge"):
            over, within = sc["true"], sc["false"]
        else:
            over, within = sc["false"], sc["true"]
        ctx.check(op in ("Gt", "Le"), "C05.D3.limit-comparison", "validate:cmp" if side == "encode" else "validate:cmp:decode",
                  "%s rejects exactly when length > %d (found: length %s limit on the %s edge)" % (side, LIMIT, op, "rejecting" if op in ("Gt", "Ge") else "accepting"), b.blocks[gbb]["term"].get("span", b0.span))
        o_r = flow.reach_avoiding(b, [over], [gbb])
        w_r = flow.reach_avoiding(b, [within], [gbb])
        too_large = [i for i, j, pl, rv, s in K.aggregates(b, "selium_std::errors::ProtocolError") if rv["variant"] == "PayloadTooLarge"]
        oks_over = [i for i, j, pl, rv, s in K.aggregates(b, "core::result::Result", o_r - w_r) if rv["variant"] == "Ok" and pl["l"] == 0]
        ctx.check(bool(set(too_large) & o_r) and not (set(too_large) & (w_r - o_r)) and not oks_over, "C05.D3.limit-edges", "validate:edges" if side == "encode" else "validate:edges:decode",
                  "%s: the over-limit edge builds PayloadTooLarge and never Ok; the within-limit edge does not" % side, b0.span)
        # buffer-touching calls: anything taking the buffer (&mut BytesMut: arg 3 of encode, arg 2 of decode) mutably
        buf = 3 if side == "encode" else 2
        bufvals = flow.derived(b, {buf}, calls="adapters")
        touching = []
        for c in b.calls():
            n = strip_generics(c.callee)
            if n in ("bytes::bytes_mut::BytesMut::len", "core::ops::deref::Deref::deref", "bytes::bytes_mut::BytesMut::is_empty",
                     "core::ops::index::Index::index", "bytes::buf::buf_impl::Buf::remaining", "bytes::buf::buf_impl::Buf::chunk"):
                continue
            if any(op_local(a) in bufvals and "&mut" in (c.arg_tys[k] if k < len(c.arg_tys) else "") for k, a in enumerate(c.args)):
                touching.append(c)
        ctx.floor("C05.D3.limit-enforced.%s" % ("encode-writes" if side == "encode" else "decode-buffer-ops"), len(touching), 1)
        for c in touching:
            ctx.check(b.dominates(within, c.bb) and c.bb not in (o_r - w_r), "C05.D3.limit-enforced", "%s:unvalidated:%s" % (side, strip_generics(c.callee)),
                      "%s: %s on the buffer happens only after the length passed the limit test" % (side, c.name()), c.span)
        leak = [c for c in touching if c.bb in (o_r - w_r)]
        ctx.check(not leak, "C05.D3.limit-enforced", "%s:err-edge-continues" % side, "%s: the over-limit edge returns without touching the buffer" % side, b0.span)
        # both sides measure the same quantity — the payload length itself, not a derived amount (e.g. length + the 9 marker bytes):
        # otherwise frames near the limit are accepted by one side and refused by the other
        vroot = flow.root_local(b, val)
        if side == "encode":
            ps = flow.payload_source(b, val)
            same = ps is not None and ps[0] == "call" and strip_generics(ps[1].callee) == "selium_protocol::frame::Frame::get_length"
            what = "the payload length returned by get_length, unmodified"
            # and that value is what goes into the prefix
            pw = [c for c in b.calls() if strip_generics(c.callee) in BE_WRITE]
            used = bool(pw) and all((flow.payload_source(b, c.args[1]) or ("x",))[0] == "call" and flow.payload_source(b, c.args[1])[1] is (ps[1] if ps else None) for c in pw[:1])
            ctx.check(used, "C05.D3.validated-value-used", "encode:validates-other-value", "the length written as the prefix is the value that was validated", (pw or [b0])[0].span)
        else:
            r0 = flow.root(b, val, through_calls=())
            same = r0[0] == "call" and strip_generics(r0[1].callee) in BE_READ
            what = "the length read from the frame header, unmodified"
            st = b.calls_to("bytes::bytes_mut::BytesMut::split_to")
            for c in st:
                ctx.check(flow.root_local(b, c.args[1]) == vroot, "C05.D3.validated-value-used", "decode:split_to-other-length", "split_to uses the validated length", c.span)
            ctx.floor("C05.D3.validated-value-used.split_to", len(st), 1)
        ctx.check(same, "C05.D3.same-quantity", "%s:limit-on-derived-value" % side, "%s applies the limit to %s" % (side, what), b.blocks[gbb]["term"].get("span", b0.span))


def d4(ctx, F):
    # (the limit helper is looked through as well here: a validated-length newtype must not hide the length from the completeness test)
    dec = F.inlined(F.one_body(r"^<selium_protocol::codec::MessageCodec as tokio_util::codec::decoder::Decoder>::decode$"), keep=(TRY_FROM,) + tuple(FRAME_CTORS(F)))
    consumers = [c for c in dec.calls() if is_consumer(c)]
    ctx.floor("C05.D4.consumers", len(consumers), 3)
    # blocks that build Ok(None)
    none_blocks = set()
    for i, j, pl, rv, s in K.aggregates(dec, "core::option::Option"):
        if rv["variant"] == "None" and not s.get("macros"):       # (assert_eq! passes `None` as its message argument)
            none_blocks.add(i)
    ctx.floor("C05.D4.need-more-exits", len(none_blocks), 2)
    for c in consumers:
        r = flow.reach_avoiding(dec, [c.bb], [])
        ctx.check(not (r & none_blocks), "C05.D4.no-consume-before-complete", "decode:consume-then-none:%s" % c.name(),
                  "%s is never followed by an `Ok(None)` (need more bytes) exit" % c.name(), c.span)
    # the decoder only ever takes bytes off the front of the buffer: it never replaces / clears the buffer as a whole (bytes already
    # received behind the current frame belong to the next frames)
    whole = [s_.get("span", dec.span) for i_, j_, pl_, rv_, s_ in dec.assigns() if pl_["l"] == 2 and pl_["p"] == ["*"]]
    whole += [c.span for c in dec.calls() if strip_generics(c.callee) in ("core::mem::replace", "core::mem::take", "core::mem::swap") and any(flow.root_local(dec, a) == 2 for a in c.args if a.get("k") in ("copy", "move"))]
    ctx.check(not whole, "C05.D4.exact-consumption", "decode:buffer-replaced", "decode never replaces the source buffer as a whole (only consumes from its front)", (whole or [dec.span])[0])
    # guards
    guards = []
    for i, bl in enumerate(dec.blocks):
        sc = flow.switch_condition(dec, i)
        if not (sc and sc.get("kind") == "cmp"):
            continue
        # normalise `have >= need { go on } else { None }` (and the mirrored operand order) to `have < need => None`
        sc = dict(sc)
        if sc["op"] in ("Gt", "Le") and flow.const_of(sc["a"]) is not None:
            sc["a"], sc["b"], sc["op"] = sc["b"], sc["a"], flow._FLIP[sc["op"]]
        if sc["op"] == "Ge":
            sc["op"], sc["true"], sc["false"] = "Lt", sc["false"], sc["true"]
        if (dec.reachable(sc["true"]) & none_blocks) and not any(c.bb in dec.reachable(sc["true"]) for c in consumers):
            guards.append((i, sc))
    have_len_guard = have_payload_guard = False
    lensrc = {c.dest["l"] for c in dec.calls_to("bytes::bytes_mut::BytesMut::len", "bytes::buf::buf_impl::Buf::remaining")}
    lenvals = flow.derived(dec, lensrc, calls="adapters")
    rdl = [c for c in dec.calls() if strip_generics(c.callee) in BE_READ]
    lengthvals = flow.derived(dec, {rdl[0].dest["l"]}, calls="adapters") if rdl else set()
    for i, sc in guards:
        a, b = sc["a"], sc["b"]
        op = sc["op"]
        if op_local(a) in lenvals and flow.const_of(b) is not None and op in ("Lt",):
            if flow.const_of(b) == 9:
                have_len_guard = True
                for c in consumers + rdl:
                    ctx.check(dec.dominates(sc["false"], c.bb), "C05.D4.header-guard", "decode:unguarded-header:%s" % c.name(),
                              "%s happens only when at least 9 header bytes are buffered" % c.name(), c.span)
        if op_local(a) in lenvals and op_local(b) in lengthvals and op == "Lt":
            have_payload_guard = True
            for c in consumers:
                ctx.check(dec.dominates(sc["false"], c.bb), "C05.D4.payload-guard", "decode:unguarded-consume:%s" % c.name(),
                          "%s happens only when the whole payload is buffered (not bytes_read < length)" % c.name(), c.span)
            # lhs must be len - RESERVED_SIZE
            r = flow.root(dec, a)
            okl = False
            if r[0] == "rv":
                pass
            for i2, j, pl, rv, s in dec.assigns():
                if rv["k"] == "binop" and rv["op"] in ("SubWithOverflow", "Sub") and op_local(rv["a"]) in lenvals and flow.const_of(rv["b"]) == 9:
                    if pl["l"] in flow.derived(dec, {pl["l"]}, calls=()) and op_local(a) in flow.derived(dec, {pl["l"]}, calls=()):
                        okl = True
            ctx.check(okl, "C05.D4.payload-guard", "decode:bytes-read-not-len-minus-9",
                      "the completeness test compares (buffered - 9 header bytes) with the length", dec.span)
    ctx.check(have_len_guard, "C05.D4.header-guard", "decode:no-header-guard", "decode returns Ok(None) when fewer than 9 bytes are buffered (len < RESERVED_SIZE)", dec.span)
    ctx.check(have_payload_guard, "C05.D4.payload-guard", "decode:no-payload-guard", "decode returns Ok(None) when buffered payload bytes < length", dec.span)
    # exact consumption: advance(8), get_u8, split_to(length)
    adv = dec.calls_to("bytes::buf::buf_impl::Buf::advance")
    g8 = dec.calls_to("bytes::buf::buf_impl::Buf::get_u8")
    st = dec.calls_to("bytes::bytes_mut::BytesMut::split_to")
    shape = len(adv) == 1 and len(g8) == 1 and len(st) == 1 and len(consumers) == 3
    if ctx.check(shape, "C05.D4.exact-consumption", "decode:consumption-shape",
                 "a complete frame consumes advance(8) + get_u8 + split_to(length) and nothing else (found %s)" % [c.name() for c in consumers], dec.span):
        ctx.check(flow.const_of(adv[0].args[1]) == 8, "C05.D4.exact-consumption", "decode:advance-not-8", "advance skips exactly the 8 prefix bytes", adv[0].span)
        ctx.check(dec.dominates(adv[0].bb, g8[0].bb) and dec.dominates(g8[0].bb, st[0].bb), "C05.D4.exact-consumption", "decode:consumption-order",
                  "prefix, then type byte, then payload", adv[0].span)
        # the type byte feeds try_from together with the payload
        tf = [c for c in dec.calls() if "TryFrom" in c.full and "try_from" in c.callee]
        if not tf:
            # (an inherent constructor such as Frame::from_wire(type, bytes) that the TryFrom impl delegates to)
            tf = [c for c in dec.calls() if (c.t.get("resolved") or c.callee).startswith("selium_protocol::frame::Frame::") and len(c.args) == 2 and
                  flow.root_local(dec, c.args[0]) == g8[0].dest["l"] and flow.root_local(dec, c.args[1]) == st[0].dest["l"]]
        if ctx.check(len(tf) == 1, "C05.D4.exact-consumption", "decode:try_from", "decoded bytes are handed to Frame::try_from once", dec.span):
            if len(tf[0].args) == 2:
                okk = flow.root_local(dec, tf[0].args[0]) == g8[0].dest["l"] and flow.root_local(dec, tf[0].args[1]) == st[0].dest["l"]
            else:
                r = flow.root(dec, tf[0].args[0])
                okk = r[0] == "rv" and r[1]["k"] == "agg" and len(r[1]["ops"]) == 2 and \
                    flow.root_local(dec, r[1]["ops"][0]) == g8[0].dest["l"] and flow.root_local(dec, r[1]["ops"][1]) == st[0].dest["l"]
            ctx.check(okk, "C05.D4.exact-consumption", "decode:try_from-args", "Frame::try_from receives (type byte read, payload split off)", tf[0].span)


def wire_ops(body, F, depth=0):
    """ordered list (by dominance/RPO) of wire primitives, each tagged header|element"""
    loops = flow.loops(body)
    inloop = set().union(*loops) if loops else set()
    ops = []
    # RPO order
    order = []
    seen = set()

    def dfs(n):
        seen.add(n)
        for s in body.succ_map()[n]:
            if s not in seen:
                dfs(s)
        order.append(n)
    dfs(0)
    order.reverse()
    pos = {b: i for i, b in enumerate(order)}
    for c in sorted(body.calls(), key=lambda c: pos.get(c.bb, 1e9)):
        n = strip_generics(c.callee)
        where = "element" if c.bb in inloop else "header"
        if n in BE_WRITE:
            ops.append((where, "u64", BE_WRITE[n], c.span))
        elif n in BE_READ and n.startswith("bytes::"):
            ops.append((where, "u64", BE_READ[n], c.span))
        elif n in ("bytes::bytes_mut::BytesMut::extend_from_slice", "bytes::buf::buf_mut::BufMut::put_slice", "bytes::buf::buf_mut::BufMut::put"):
            ops.append((where, "bytes", "", c.span))
        elif n in ("bytes::bytes::Bytes::split_to", "bytes::buf::buf_impl::Buf::copy_to_bytes"):
            ops.append((where, "bytes", "", c.span))
        elif n in ("core::iter::traits::iterator::Iterator::for_each", "core::iter::traits::iterator::Iterator::map") and depth == 0:
            # element closure
            r = flow.root(body, c.args[1])
            if r[0] == "rv" and r[1]["k"] == "agg" and "closure" in r[1]:
                cb = F.bodies.get(r[1]["closure"])
                if cb is not None:
                    for w, k, e, sp in wire_ops(cb, F, 1):
                        ops.append(("element", k, e, sp))
        elif n in ("core::iter::traits::iterator::Iterator::rev", "core::slice::<impl [T]>::reverse", "alloc::vec::Vec::insert",
                   "core::iter::traits::double_ended::DoubleEndedIterator::next_back", "core::iter::traits::double_ended::DoubleEndedIterator::rfold"):
            ops.append((where, "REVERSAL:" + n, "", c.span))
    return ops


def d5(ctx, F):
    w = F.body("selium_protocol::utils::encode_message_batch")
    r = F.body("selium_protocol::utils::decode_message_batch")
    ctx.touch(w, r)
    w, r = F.inlined(w), F.inlined(r)        # per-element helpers (put_message / take_message ..) are looked through
    wo, ro = wire_ops(w, F), wire_ops(r, F)
    ws = [(a, b, c) for a, b, c, _ in wo]
    rs = [(a, b, c) for a, b, c, _ in ro]
    ctx.floor("C05.D5.batch-mirror.writer-ops", len(ws), 3)
    ctx.floor("C05.D5.batch-mirror.reader-ops", len(rs), 3)
    ctx.check(ws == rs, "C05.D5.batch-mirror", "batch-mirror",
              "batch writer primitives %s are mirrored by batch reader primitives %s (count header, then per element: length, bytes; same endianness, same direction)" % (ws, rs),
              (ro or wo or [(0, 0, 0, r.span)])[0][3])
    ctx.check(ws[:1] == [("header", "u64", "be")] and ws[1:] == [("element", "u64", "be"), ("element", "bytes", "")], "C05.D5.batch-layout", "batch-writer-layout",
              "batch writer layout is [u64 count][u64 len, bytes]*", w.span)
    # reader pushes in read order into the output
    push = r.calls_to("alloc::vec::Vec::push")
    st = r.calls_to("bytes::bytes::Bytes::split_to", "bytes::buf::buf_impl::Buf::copy_to_bytes")
    good = len(push) == 1 and len(st) == 1 and flow.root_local(r, push[0].args[1]) == st[0].dest["l"]
    ctx.check(good, "C05.D5.batch-order", "batch-reader-order", "every element read is appended (Vec::push) to the output in read order", (push or st or [r])[0].span)
    # the reader takes exactly as many elements as the header announces: the loop bound is the count read, through casts only
    # (a clamped / shadowed count silently drops the tail of a large batch)
    hdr = [c for c in r.calls() if strip_generics(c.callee) in BE_READ and c.bb not in (set().union(*flow.loops(r)) if flow.loops(r) else set())]
    rng = [(i, rv, s) for i, j, pl, rv, s in r.assigns() if rv["k"] == "agg" and rv.get("adt", "").endswith(("ops::range::Range", "ops::range::RangeInclusive"))]
    okn = False
    if len(hdr) == 1 and len(rng) == 1:
        rv = rng[0][1]
        end = flow.root(r, rv["ops"][1], through_calls=())
        okn = flow.const_of(rv["ops"][0]) == 0 and rv["adt"].endswith("::Range") and end[0] == "call" and end[1] is hdr[0]
    else:
        # `while read < count` style loops: some comparison against the header value must bound the loop
        okn = False
        for i, bl in enumerate(r.blocks):
            sc = flow.switch_condition(r, i)
            if sc and sc.get("kind") == "cmp" and hdr and any(i in l for l in flow.loops(r)):
                for o in (sc["a"], sc["b"]):
                    e = flow.root(r, o, through_calls=()) if o.get("k") in ("copy", "move") else None
                    if e and e[0] == "call" and e[1] is hdr[0]:
                        okn = True
    if not okn and hdr:
        # countdown form: `let mut left = count; loop { if left == 0 { break } left -= 1; .. }`
        lps = flow.loops(r)
        for i, bl in enumerate(r.blocks):
            sc = flow.switch_condition(r, i)
            if not (sc and sc.get("kind") == "cmp" and any(i in l for l in lps)):
                continue
            for o, z in ((sc["a"], sc["b"]), (sc["b"], sc["a"])):
                if flow.const_of(z) != 0 or o.get("k") not in ("copy", "move"):
                    continue
                L = flow.root_local(r, o)
                inits, decs, other = 0, 0, 0
                for d in r.defs().get(L, []):
                    if d[0] != "assign":
                        other += 1
                        continue
                    rv = d[3]
                    e = flow.root(r, rv["op"], through_calls=()) if rv["k"] in ("use", "cast") else None
                    if e and e[0] == "call" and e[1] is hdr[0]:
                        inits += 1
                    elif e and e[0] == "rv" and e[1]["k"] == "binop" and e[1]["op"] in ("SubWithOverflow", "Sub") and flow.const_of(e[1]["b"]) == 1 and flow.root_local(r, e[1]["a"]) == L:
                        decs += 1
                    else:
                        other += 1
                if inits == 1 and decs >= 1 and other == 0:
                    okn = True
    if not okn and hdr:
        # countdown kept in a field of a private iterator struct: `if self.left == 0 { return None } self.left -= 1;`, with the struct
        # built as `Iter { left: count, .. }` (helpers inlined, `&mut self` forwarded to the local that holds the struct)
        def field_place(o):
            if o.get("k") not in ("copy", "move"):
                return None
            pl_ = o["pl"]
            if not [e for e in pl_["p"] if isinstance(e, int)]:
                r_ = flow.root(r, o, through_calls=())
                if r_[0] == "rv" and r_[1]["k"] == "use" and r_[1]["op"].get("k") in ("copy", "move"):
                    pl_ = r_[1]["op"]["pl"]
            ints = [e for e in pl_["p"] if isinstance(e, int)]
            return (pl_["l"], tuple(ints)) if ints and all(e == "*" or isinstance(e, int) for e in pl_["p"]) else None
        for i, bl in enumerate(r.blocks):
            sc = flow.switch_condition(r, i)
            if not (sc and sc.get("kind") == "cmp"):
                continue
            for o, z in ((sc["a"], sc["b"]), (sc["b"], sc["a"])):
                fp = field_place(o) if flow.const_of(z) == 0 else None
                if fp is None or len(fp[1]) != 1:
                    continue
                L, fi = fp[0], fp[1][0]
                # the struct value: follow whole-local moves back to its literal
                cur, agg = L, None

                def sd(l_):
                    ds_ = [d_ for d_ in r.defs().get(l_, []) if d_[0] in ("assign", "call")]       # (field stores are not definitions of the struct)
                    return ds_[0] if len(ds_) == 1 else None
                for _ in range(10):
                    d = sd(cur)
                    if d and d[0] == "call" and strip_generics(d[2].callee) == "core::iter::traits::collect::IntoIterator::into_iter" and d[2].args and \
                            d[2].args[0].get("k") in ("copy", "move") and not d[2].args[0]["pl"]["p"]:
                        cur = d[2].args[0]["pl"]["l"]          # (into_iter of an Iterator is the identity)
                        continue
                    if not (d and d[0] == "assign"):
                        break
                    if d[3]["k"] == "agg" and d[3].get("agg") == "adt":
                        agg = d[3]
                        break
                    if d[3]["k"] == "use" and d[3]["op"].get("k") in ("copy", "move") and not d[3]["op"]["pl"]["p"]:
                        cur = d[3]["op"]["pl"]["l"]
                        continue
                    break
                if agg is None or fi >= len(agg["ops"]):
                    continue
                e = flow.root(r, agg["ops"][fi], through_calls=()) if agg["ops"][fi].get("k") in ("copy", "move") else None
                init_ok = bool(e and e[0] == "call" and e[1] is hdr[0])
                decs, other = 0, 0
                for i2, j2, pl2, rv2, s2 in r.assigns():
                    if pl2["l"] == L and [x for x in pl2["p"] if isinstance(x, int)] == [fi]:
                        e2 = flow.root(r, rv2["op"], through_calls=()) if rv2["k"] == "use" and rv2["op"].get("k") in ("copy", "move") else None
                        src = None
                        if rv2["k"] == "use" and rv2["op"].get("k") in ("copy", "move") and rv2["op"]["pl"]["p"] == [0]:
                            dd = flow.single_def(r, rv2["op"]["pl"]["l"])
                            src = dd[3] if dd and dd[0] == "assign" else None
                        if src and src["k"] == "binop" and src["op"] in ("SubWithOverflow", "Sub") and flow.const_of(src["b"]) == 1 and field_place(src["a"]) == (L, (fi,)):
                            decs += 1
                        else:
                            other += 1
                if init_ok and decs >= 1 and other == 0:
                    okn = True
    ctx.check(okn, "C05.D5.batch-count", "batch-reader-count", "the batch reader reads exactly the announced number of elements (loop bound = the count header, unmodified)",
              (rng[0][2]["span"] if rng else r.span))
    # writer header is the element count, element prefix is that element's length
    p = [c for c in w.calls() if strip_generics(c.callee) in BE_WRITE]
    if p:
        rr = flow.root(w, p[0].args[1])
        ctx.check(rr[0] == "call" and rr[1].is_("alloc::vec::Vec::len") and flow.root_local(w, rr[1].args[0]) == 1, "C05.D5.batch-layout", "batch-count-not-len",
                  "the header is batch.len()", p[0].span)


def d5_guard_exactness(ctx, F):
    """every early exit of the batch reader that compares the bytes remaining with a needed amount must exit exactly when
    need > remaining (strict): `<=`/`>=` forms reject well-formed batches whose last element fits exactly (e.g. a trailing empty message)."""
    from .. import panics
    r = F.inlined(F.body("selium_protocol::utils::decode_message_batch"))
    lens = panics.len_derived(r)
    reads = [c for c in r.calls() if strip_generics(c.callee) in BE_READ or strip_generics(c.callee) in ("bytes::bytes::Bytes::split_to", "bytes::buf::buf_impl::Buf::copy_to_bytes", "alloc::vec::Vec::with_capacity")]
    n = 0
    for i, bl in enumerate(r.blocks):
        if bl.get("cleanup"):
            continue
        sc = flow.switch_condition(r, i)
        if not sc or sc.get("kind") != "cmp":
            continue
        a_len, b_len = op_local(sc["a"]) in lens, op_local(sc["b"]) in lens
        if a_len == b_len:
            continue
        # which edge continues to a wire read without coming back through this test?
        t_reads = [c for c in reads if c.bb in flow.reach_avoiding(r, [sc["true"]], [i])]
        f_reads = [c for c in reads if c.bb in flow.reach_avoiding(r, [sc["false"]], [i])]
        if bool(t_reads) == bool(f_reads):
            continue
        n += 1
        op = sc["op"] if t_reads else flow._NEG[sc["op"]]     # relation that holds on the continue edge, as written (a op b)
        if not a_len:
            op = flow._FLIP[op]                                # normalise to: remaining OP need
        # a bound of the form count <= remaining / D is exact only when D is the number of bytes every element certainly occupies
        lenop = sc["a"] if a_len else sc["b"]
        rr = flow.root(r, lenop)
        for _ in range(3):
            if rr[0] == "rv" and rr[1]["k"] == "cast":
                rr = flow.root(r, rr[1]["op"])
        if rr[0] == "rv" and rr[1]["k"] == "binop" and rr[1]["op"] == "Div":
            d = flow.const_of(rr[1]["b"])
            if d is None:
                r2 = flow.root(r, rr[1]["b"])
                d = flow.const_of(r2[1]) if r2[0] == "const" else None
            loops_ = flow.loops(r)
            per_elem = sum(panics.CONST_READS.get(c.name(), 0) for c in r.calls() if loops_ and c.bb in loops_[0])
            ctx.check(d == per_elem, "C05.D5.guard-exact", "batch-count-divisor",
                      "the element-count plausibility bound divides the bytes remaining by the %d bytes every element certainly occupies (found divisor %s)" % (per_elem, d), bl["term"]["span"])
        ctx.check(op == "Ge", "C05.D5.guard-exact", "batch-guard-overstrict:%d" % (n - 1),
                  "batch reader continues exactly when remaining >= needed (found: remaining %s needed); a stricter test drops well-formed input that fits exactly" % op, bl["term"]["span"])
    return n


def run(ctx):
    F = ctx.facts("quick")
    d1_serde_plain(ctx, F)
    d1_decoder_plain(ctx, F)
    d5_guard_exactness(ctx, F)
    d1(ctx, F)
    d2(ctx, F)
    d3(ctx, F)
    d4(ctx, F)
    d5(ctx, F)
