"""C14 — payload transforms: encoder finished before bytes are taken, same library both sides,
invalid input is an error, option family agrees."""
import re
from .. import flow
from ..facts import strip_generics, op_local, rv_locals
from . import common as K

EXPLANATION = (
    "Decided on the MIR of the 4 Compress / 4 Decompress / 3+3 codec impls: (D1) the bytes a compressor returns derive from the "
    "encoder's terminal operation (finish / into_inner / one-shot encode_all), every Ok-returning path passes it, no output is taken "
    "through get_ref/get_mut/flush alone, and the whole input is written; (D2) per algorithm the compressor and decompressor use the same "
    "library family and, for deflate, the DeflateLibrary variant selects Gz<->Gz and Zlib<->Zlib on both sides; (D3) the string codec uses "
    "checked String::from_utf8 and propagates its error, lossy/unchecked conversions are absent from the codecs, the bytes codec copies the "
    "whole buffer, bincode encode/decode use the same option family. Losslessness of the third-party codecs themselves is NOT decided.")
ASSUMPTIONS = ["flate2 finish(), lz4_flex FrameEncoder::finish(), brotli CompressorWriter::into_inner() (issues BROTLI_OPERATION_FINISH, brotli-3.4.0) "
               "and zstd::encode_all complete the stream", "third-party decoders return Err on invalid input"]

COMPRESS = "selium_std::traits::compression::Compress"
DECOMPRESS = "selium_std::traits::compression::Decompress"
ENC = "selium_std::traits::codec::MessageEncoder"
DEC = "selium_std::traits::codec::MessageDecoder"

ENCODER_TYPES = ("flate2::gz::write::GzEncoder", "flate2::zlib::write::ZlibEncoder", "flate2::deflate::write::DeflateEncoder",
                 "lz4_flex::frame::compress::FrameEncoder", "brotli::enc::writer::CompressorWriter", "zstd::stream::write::Encoder")
TERMINAL = {"flate2::gz::write::GzEncoder::finish", "flate2::zlib::write::ZlibEncoder::finish", "flate2::deflate::write::DeflateEncoder::finish",
            "lz4_flex::frame::compress::FrameEncoder::finish", "brotli::enc::writer::CompressorWriter::into_inner",
            "zstd::stream::write::Encoder::finish"}
ONESHOT = {"zstd::stream::functions::encode_all", "zstd::bulk::compress", "lz4_flex::block::compress_prepend_size"}


def family(path):
    p = strip_generics(path).replace("brotli_decompressor::", "brotli::")   # brotli re-exports its decompressor crate
    p = re.sub(r"^<", "", p)
    for f in ("flate2::gz", "flate2::zlib", "flate2::deflate", "lz4_flex::frame", "lz4_flex::block", "brotli", "zstd"):
        if p.startswith(f + "::") or ("::" + f + "::") in p:
            return f
    return None


def ok_payload_locals(body):
    out = []
    retl = K.return_locals(body)
    for i, j, pl, rv, s in K.aggregates(body, "core::result::Result"):
        if rv["variant"] == "Ok" and pl["l"] in retl and not pl["p"]:
            out.append((i, rv["ops"][0], s["span"]))
    return out


def d1(ctx, F):
    impls = F.impls_of(COMPRESS)
    ctx.floor("C14.D1.compress-impls", len(impls), 4)
    for im in sorted(impls, key=lambda i: i["self"]):
        b = F.body(im["items"]["compress"])
        ctx.touch(b)
        b = F.inlined(b)          # private helper types / functions around the third-party encoder are looked through
        name = im["self"].rsplit("::", 1)[-1]
        oks = ok_payload_locals(b)
        if not ctx.check(bool(oks), "C14.D1.terminal-op", "compress:%s:no-ok" % name, "%s::compress has an Ok return" % name, b.span):
            continue
        calls = b.calls()
        enc_calls = [c for c in calls if strip_generics(c.self_ty).startswith(ENCODER_TYPES) or strip_generics(c.callee).startswith(ENCODER_TYPES)]
        terminals = [c for c in calls if strip_generics(c.callee) in TERMINAL or strip_generics(c.callee) in ONESHOT]
        inv = flow.derived(b, {2}, calls="adapters" if False else ("core::ops::index::Index::index",))
        for (obb, op, sp) in oks:
            ol = op_local(op)
            # which encoder-related calls feed the output
            feeders = []
            for c in enc_calls + [t for t in terminals if t not in enc_calls]:
                if c.dest is None:
                    continue
                if ol in flow.derived(b, {c.dest["l"]}, calls=("core::ops::try_trait::Try::branch", "core::convert::Into::into", "core::convert::From::from")) :
                    feeders.append(c)
            term_feed = [c for c in feeders if strip_generics(c.callee) in TERMINAL or strip_generics(c.callee) in ONESHOT]
            bad_feed = [c for c in feeders if c not in term_feed and c.name() not in ("new", "with_params", "with_quality")]
            ctx.check(bool(term_feed) and not bad_feed, "C14.D1.terminal-op", "compress:%s:output-not-from-terminal" % name,
                      "%s: returned bytes derive from the encoder's terminal operation %s (and from no non-terminal view %s)"
                      % (name, [c.name() for c in term_feed], [c.name() for c in bad_feed]), sp)
            ctx.check(bool(terminals) and flow.must_pass(b, 0, [obb], [c.bb for c in terminals], from_is_after=False), "C14.D1.terminal-on-every-path",
                      "compress:%s:path-skips-terminal" % name, "%s: every path to Ok passes the terminal operation" % name, sp)
        # the whole input is written: write_all / one-shot gets input[..] or &input
        sinks = [c for c in calls if c.name() in ("write_all", "encode_all", "compress", "compress_prepend_size", "copy") and any(op_local(a) in inv for a in c.args)]
        partial = [c for c in calls if strip_generics(c.callee) in ("core::ops::index::Index::index",) and op_local(c.args[0]) in inv and "RangeFull" not in " ".join(c.arg_tys)]
        writes = [c for c in calls if c.name() == "write" and strip_generics(c.callee).endswith("io::Write::write")]
        ctx.check(bool(sinks) and not partial and not writes, "C14.D1.whole-input", "compress:%s:partial-input" % name,
                  "%s: the whole input is handed to the encoder (write_all / one-shot), not a sub-range or a single write()" % name, b.span)


def d2(ctx, F):
    cimpls = {i["self"]: i for i in F.impls_of(COMPRESS)}
    dimpls = {i["self"]: i for i in F.impls_of(DECOMPRESS)}
    ctx.floor("C14.D2.decompress-impls", len(dimpls), 4)
    # pair by algorithm module: compression::<algo>::comp::X  <-> compression::<algo>::decomp::Y
    def algo(s):
        m = re.search(r"compression::(\w+)::", s)
        return m.group(1) if m else s
    pairs = {}
    for s, i in cimpls.items():
        pairs.setdefault(algo(s), {})["c"] = F.inlined(F.body(i["items"]["compress"]))
    for s, i in dimpls.items():
        pairs.setdefault(algo(s), {})["d"] = F.inlined(F.body(i["items"]["decompress"]))
    for a, p in sorted(pairs.items()):
        if not ctx.check("c" in p and "d" in p, "C14.D2.paired", "pair-missing:%s" % a, "algorithm %s has both a compressor and a decompressor" % a):
            continue
        ctx.touch(p["c"], p["d"])
        fc = {family(c.callee) or family(c.self_ty) for c in p["c"].calls()} - {None}
        fd = {family(c.callee) or family(c.self_ty) for c in p["d"].calls()} - {None}
        ctx.check(fc == fd and fc, "C14.D2.same-library", "library-mismatch:%s" % a,
                  "%s: compressor uses %s, decompressor uses %s" % (a, sorted(fc), sorted(fd)), p["d"].span)
    # deflate: variant -> library on both sides
    lib = "selium_std::compression::deflate::types::DeflateLibrary"
    tables = {}
    for side in ("c", "d"):
        b = pairs.get("deflate", {}).get(side)
        if b is None:
            continue
        sws = K.find_variant_switches(b, lib)
        if not ctx.check(len(sws) == 1, "C14.D2.deflate-table", "deflate:%s:shape" % side, "deflate %s matches once on DeflateLibrary" % side, b.span):
            continue
        arms, adt, pl, other, allv = K.arm_map(b, sws[0])
        t = {}
        for v, blocks in arms.items():
            fams = {family(c.callee) or family(c.self_ty) for c in K.calls_in(b, blocks)} - {None}
            t[v] = sorted(fams)
        tables[side] = t
    if len(tables) == 2:
        ctx.floor("C14.D2.deflate-table.variants", len(tables["c"]), 2)
        for v in sorted(tables["c"]):
            ctx.check(tables["c"][v] == tables["d"].get(v) and len(tables["c"][v]) == 1, "C14.D2.deflate-table", "deflate-table:%s" % v,
                      "DeflateLibrary::%s compresses with %s and decompresses with %s" % (v, tables["c"][v], tables["d"].get(v)))
        inj = len({tuple(x) for x in tables["c"].values()}) == len(tables["c"])
        ctx.check(inj, "C14.D2.deflate-table", "deflate-table:not-injective", "different DeflateLibrary variants select different formats")


WHOLE = {"deref", "deref_mut", "into", "from", "as_ref", "as_mut", "borrow", "borrow_mut", "clone", "to_vec", "to_owned", "freeze", "as_slice",
         "as_mut_slice", "into_vec", "copy_from_slice", "to_bytes", "into_bytes", "as_bytes", "into_boxed_slice", "as_str", "into_string", "to_string"}


def narrowing_calls(b, operand):
    """backward slice from `operand`: the calls its value passes through that are not whole-value conversions (anything that can yield
    a sub-range, a trimmed or a re-interpreted view of the bytes: strip_prefix, trim, get, split_at, Index<Range>, ...)"""
    seen, todo, out = set(), [op_local(operand)], []
    defs = {}
    for i, j, pl, rv, s in b.assigns():
        defs.setdefault(pl["l"], []).append(("rv", rv))
    for c in b.calls():
        if c.dest is not None:
            defs.setdefault(c.dest["l"], []).append(("call", c))
    while todo:
        l = todo.pop()
        if l is None or l in seen:
            continue
        seen.add(l)
        for kind, d in defs.get(l, []):
            if kind == "rv":
                todo.extend(rv_locals(d))
            else:
                n = d.name()
                whole = n in WHOLE or (n in ("index", "index_mut") and "RangeFull" in " ".join(d.arg_tys)) or \
                    (n == "split" and strip_generics(d.callee) == "bytes::bytes_mut::BytesMut::split") or (n == "take" and strip_generics(d.callee) == "core::mem::take")
                if not whole:
                    out.append(d)
                todo.extend(op_local(a) for a in d.args)
    return out


def d3(ctx, F):
    bad = ("alloc::string::String::from_utf8_lossy", "alloc::string::String::from_utf8_unchecked", "core::str::converts::from_utf8_unchecked",
           "core::str::<impl str>::from_utf8_unchecked", "alloc::string::String::from_utf8_lossy_owned")
    n = 0
    for p, b in F.bodies.items():
        if b.crate == "selium_std":
            for c in b.calls():
                n += 1
                if strip_generics(c.callee) in bad:
                    ctx.fail("C14.D3.no-lossy", "lossy-utf8:%s" % p, "lossy / unchecked UTF-8 conversion %s in %s" % (c.callee, p), c.span)
    ctx.floor("C14.D3.no-lossy.calls-scanned", n, 200)
    ctx.ok("C14.D3.no-lossy", "no from_utf8_lossy / from_utf8_unchecked among %d call sites of selium_std" % n)
    decs = F.impls_of(DEC)
    encs = F.impls_of(ENC)
    ctx.floor("C14.D3.decoder-impls", len(decs), 3)
    ctx.floor("C14.D3.encoder-impls", len(encs), 3)
    for im in decs:
        b = F.body(im["items"]["decode"])
        ctx.touch(b)
        name = im["self"].rsplit("::", 1)[-1]
        if "StringCodec" in im["self"]:
            fu = b.calls_to("alloc::string::String::from_utf8")
            if ctx.check(len(fu) == 1, "C14.D3.string-checked", "string-decode:no-from_utf8", "StringCodec::decode validates with String::from_utf8", b.span):
                # the error arm: `?`'s Break edge, the Err arm of an explicit match, or the Result returned as it is (map_err at most)
                te = K.try_edges(b, fu[0])
                err_arm = te[1] if te is not None else None
                if err_arm is None:
                    m = flow.switch_after_call(b, fu[0])
                    if m and "Err" in m and "Ok" in m:
                        err_arm = m["Err"]
                okp = err_arm is not None
                if okp:
                    r = b.reachable(err_arm)
                    okp = not [1 for i, j, pl, rv, s in K.aggregates(b, "core::result::Result", r) if rv["variant"] == "Ok"]
                elif fu[0].dest is not None:
                    okp = 0 in flow.derived(b, {fu[0].dest["l"]}, calls={"core::result::Result::map_err"}) or (fu[0].dest["l"] == 0 and not fu[0].dest["p"])
                ctx.check(okp, "C14.D3.string-checked", "string-decode:error-swallowed", "an invalid-UTF-8 error is propagated, never turned into a value", fu[0].span)
                # whole buffer
                idx = [c for c in b.calls() if strip_generics(c.callee) == "core::ops::index::Index::index"]
                nar = narrowing_calls(F.inlined(b), F.inlined(b).calls_to("alloc::string::String::from_utf8")[0].args[0]) if len(F.inlined(b).calls_to("alloc::string::String::from_utf8")) == 1 else []
                ctx.check(all("RangeFull" in " ".join(c.arg_tys) for c in idx) and not nar, "C14.D3.whole-buffer", "string-decode:partial",
                          "StringCodec::decode converts the whole buffer (%s)" % (", ".join(sorted({strip_generics(c.callee) for c in nar})) or "whole-value conversions only"), (nar or [b])[0].span)
        if "BytesCodec" in im["self"]:
            idx = [c for c in b.calls() if strip_generics(c.callee) == "core::ops::index::Index::index" and "RangeFull" not in " ".join(c.arg_tys)]
            cp = [c for c in b.calls() if c.name() in ("to_vec", "into", "to_owned", "copy_from_slice", "extend_from_slice", "from")]
            ctx.check(bool(cp) and not idx, "C14.D3.whole-buffer", "bytes-decode:partial", "BytesCodec::decode copies the whole buffer", b.span)
    # bincode option family
    fam = {}
    for im in encs + decs:
        if "BincodeCodec" not in im["self"]:
            continue
        b = F.body(list(im["items"].values())[0])
        ctx.touch(b)
        cs = [strip_generics(c.callee) for c in b.calls() if strip_generics(c.callee).startswith("bincode::")]
        side = "enc" if im["trait"] == ENC else "dec"
        fam[side] = cs
    def is_default(cs):
        return bool(cs) and all(c in ("bincode::serialize", "bincode::serialize_into", "bincode::deserialize", "bincode::deserialize_from", "bincode::serialized_size") for c in cs)
    def opts(cs):
        return sorted(c.rsplit("::", 1)[-1] for c in cs if "Options" in c or "config" in c)
    ok = (is_default(fam.get("enc", [])) and is_default(fam.get("dec", []))) or (opts(fam.get("enc", [])) and
         [o for o in opts(fam["enc"]) if o not in ("serialize", "serialize_into", "with_limit", "with_no_limit")] == [o for o in opts(fam.get("dec", [])) if o not in ("deserialize", "deserialize_from", "with_limit", "with_no_limit", "allow_trailing_bytes", "reject_trailing_bytes")])
    ctx.check(bool(ok), "C14.D3.bincode-family", "bincode-option-mismatch",
              "BincodeCodec encodes with %s and decodes with %s (same option family)" % (fam.get("enc"), fam.get("dec")))


def decomp_whole_output(ctx, F, prefix="C14.D1"):
    """a decompressor returns the decoder's complete output: read_to_end / decode_all directly on the decoder — no Read::take cap
    (which truncates silently at the limit), no single read()/read_exact into a fixed buffer"""
    impls = F.impls_of(DECOMPRESS)
    for im in sorted(impls, key=lambda i: i["self"]):
        b = F.body(im["items"]["decompress"])
        ib = F.inlined(b)            # helpers such as `read_all(decoder)` are looked through
        bodies = [ib] + F.closures_of(b)
        ctx.touch(b, *F.closures_of(b))
        name = im["self"].rsplit("::", 1)[-1]
        calls = [c for bd in bodies for c in bd.calls()]
        whole = [c for c in calls if c.name() in ("read_to_end", "decode_all", "copy", "copy_decode", "read_to_string", "decompress_size_prepended")]
        capped = [c for c in calls if strip_generics(c.callee) in ("std::io::Read::take", "std::io::Read::read", "std::io::Read::read_exact", "std::io::Read::by_ref", "std::io::Read::chain")
                  or "io::Take<" in c.self_ty or "io::Take<" in " ".join(c.arg_tys)]
        ctx.check(bool(whole) and not capped, prefix + ".whole-output", "decompress:%s:truncating" % name,
                  "%s::decompress reads the decoder to its end (no take()/single read that would silently truncate): %s" % (name, [c.name() for c in capped] or "ok"), b.span)


def d4(ctx, F):
    """the wire composition encode -> batch -> compress / decompress -> unbatch -> decode: the batch step must mirror and be exact
    (same rules as C05.D5), and the subscriber must apply the inverse pipeline (same rules as C03.D3)"""
    from . import c05, c03
    c05.d5(ctx, F)
    c05.d5_guard_exactness(ctx, F)
    c03.d3(ctx, F)


STATEFUL_TY = ("Mutex<", "RwLock<", "RefCell<", "::Cell<", "Atomic", "OnceLock<", "OnceCell<", "LazyLock<", "LocalKey<", "UnsafeCell<")


def d5_stateless(ctx, F):
    """every transform (encode/decode/compress/decompress) is a function of its argument and its immutable configuration: no interior-mutable
    field on the transform's type, no thread-local / static scratch state in what it calls. State carried from one call to the next
    (a reused buffer that is not reset on an error path, a cached dictionary ..) makes the output of a call depend on earlier calls."""
    n = 0
    for tr, m in ((ENC, "encode"), (DEC, "decode"), (COMPRESS, "compress"), (DECOMPRESS, "decompress")):
        for im in sorted(F.impls_of(tr), key=lambda i: i["self"]):
            name = im["self_adt"].rsplit("::", 1)[-1]
            adt = F.adts.get(im["self_adt"])
            b = F.body(im["items"][m])
            ctx.touch(b)
            n += 1
            bad = []
            if adt:
                for v in adt.get("variants", []):
                    for f in v["fields"]:
                        if any(t in f["ty"] for t in STATEFUL_TY):
                            bad.append("field %s: %s" % (f["name"], f["ty"][:60]))
            for rb in F.region([b]).values():
                if rb.crate != b.crate:
                    continue
                for c in rb.calls():
                    nme = strip_generics(c.callee)
                    if nme.startswith("std::thread::local::LocalKey::") or any(t in (c.self_ty or "") for t in ("LocalKey<",)):
                        bad.append("thread-local state via %s in %s" % (c.name(), rb.path.rsplit("::", 2)[-2]))
                for i, j, pl, rv, st in rb.assigns():
                    for o in ([rv.get("op")] if rv.get("op") else []) + rv.get("ops", []):
                        if isinstance(o, dict) and o.get("static") and any(t in o.get("ty", "") for t in STATEFUL_TY):
                            bad.append("mutable static %s" % o["static"])
            ctx.check(not bad, "C14.D5.stateless", "stateful-transform:%s::%s" % (name, m),
                      "%s::%s keeps no state between calls (%s)" % (name, m, "; ".join(bad[:3]) or "no interior-mutable field, thread-local or static"), b.span)
    ctx.floor("C14.D5.stateless.transforms", n, 14)


def d6_default_pairs(ctx, F):
    """a default-constructed compressor and the default-constructed decompressor of the same family are a pair: their Default impls
    (derived or hand-written, helpers inlined) select the same library variant(s)"""
    defaults = {}
    for im in F.impls_of("core::default::Default"):
        s_ = im.get("self") or ""
        if not s_.startswith("selium_std::compression::") or "default" not in im.get("items", {}):
            continue
        b = F.bodies.get(im["items"]["default"])
        if b is None:
            continue
        ctx.touch(b)
        ib = F.inlined(b)
        libs = sorted({"%s::%s" % (rv["adt"].rsplit("::", 1)[-1], rv["variant"]) for i, j, pl, rv, s in ib.assigns()
                       if rv["k"] == "agg" and rv.get("agg") == "adt" and rv.get("adt", "").startswith("selium_std::compression::") and F.adts.get(rv["adt"], {}).get("kind") == "Enum"})
        defaults[s_] = (libs, b.span)
    fam = {}
    for s_, (libs, sp) in defaults.items():
        parts = s_.split("::")
        if parts[-2] in ("comp", "decomp"):
            fam.setdefault("::".join(parts[:-2]), {})[parts[-2]] = (s_, libs, sp)
    for f_, sides in sorted(fam.items()):
        if "comp" in sides and "decomp" in sides:
            ctx.check(sides["comp"][1] == sides["decomp"][1], "C14.D2.default-pair", "default-mismatch:%s" % f_.rsplit("::", 1)[-1],
                      "%s::default() and %s::default() select the same library (%s vs %s)" % (sides["comp"][0].rsplit("::", 1)[-1], sides["decomp"][0].rsplit("::", 1)[-1], sides["comp"][1], sides["decomp"][1]),
                      sides["comp"][2])
    ctx.ok("C14.D2.default-pair", "Default impls of %d compression types compared per family" % len(defaults))


def run(ctx):
    F = ctx.facts("quick")
    d6_default_pairs(ctx, F)
    d5_stateless(ctx, F)
    d1(ctx, F)
    decomp_whole_output(ctx, F)
    d2(ctx, F)
    d3(ctx, F)
    d4(ctx, F)
