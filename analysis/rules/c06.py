"""C06 — no bytes from the network can crash a decoder."""
from .. import flow, panics
from ..facts import strip_generics, op_local
from . import common as K

EXPLANATION = (
    "Engler-style enumeration over region R-decode (frame decoder, Frame::try_from, unbatching, the 3 payload codecs, the 4 decompressors, the "
    "consuming client paths: Subscriber::poll_next/decode_message, Requestor::decode_response + reply task, Replier::handle_frame/handle_request/"
    "decode_message, handle_reply) and everything they reach in the workspace call graph (calls through workspace traits expand to all impls): "
    "every potential panic site in MIR (unwrap/expect, panic!/unreachable!, Index, bytes Buf::get_*/advance/split_to, Vec/slice APIs, overflow/"
    "bounds asserts) must be discharged by a dominating guard (D1 is_some/is_none, D2 contains_key, D4 RangeFull/infallible, D5 +1 counters, "
    "buffer-bound rule: a comparison against remaining()/len() whose failing edge leaves), and every allocation size must derive from an input "
    "length / constant / a value bounded by such a comparison; bincode::deserialize_from (unbounded IoReader resize) is disallowed. Panics or "
    "allocation inside third-party decoders are NOT decided (assumed to return Err; decompressed size is 'the value it decodes to').")
ASSUMPTIONS = ["bincode::deserialize on a slice checks every length against the remaining input before allocating (bincode-1.3.3 SliceReader)",
               "flate2 / zstd / lz4_flex / brotli decoders return Err on malformed input"]

ENTRY_RX = [
    r"^<selium_protocol::codec::MessageCodec as tokio_util::codec::decoder::Decoder>::decode$",
    r"^<selium_protocol::frame::Frame as core::convert::TryFrom<\(u8, bytes::bytes_mut::BytesMut\)>>::try_from$",
    r"^selium_protocol::utils::decode_message_batch$",
    r"^<selium::streams::pubsub::subscriber::Subscriber<D, Item> as futures_core::stream::Stream>::poll_next$",
    r"^selium::streams::pubsub::subscriber::Subscriber::<D, Item>::decode_message$",
    r"^selium::streams::request_reply::requestor::Requestor::<E, D, ReqItem, ResItem>::decode_response$",
    # async fns are entered through their (synchronous) shims: the region closure pulls in the coroutine bodies and whatever
    # named async helpers they are split into
    r"^selium::streams::request_reply::requestor::poll_replies$",
    r"^selium::streams::request_reply::replier::Replier::<E, D, F, ReqItem, ResItem>::handle_frame$",
    r"^selium::streams::request_reply::replier::Replier::<E, D, F, ReqItem, ResItem>::handle_request$",
    r"^selium::streams::request_reply::replier::Replier::<E, D, F, ReqItem, ResItem>::decode_message$",
    r"^selium::streams::handle_reply$",
    r"^selium_protocol::topic_name::TopicName::is_valid$",        # applied by the server to names deserialised straight from the wire
    r"^<selium_protocol::bistream::ReadHalf as futures_core::stream::Stream>::poll_next$",
    r"^<selium_protocol::bistream::BiStream as futures_core::stream::Stream>::poll_next$",
]
RECURSION_CRATES = ("selium_protocol", "selium_std", "selium")
# encoders / senders reached from handle_request are not fed by network bytes
STOP = ("encode", "compress", "send", "encode_message", "encode_request")


def run(ctx):
    F = ctx.facts("quick")
    # (private per-message helpers may have been folded into their callers or moved onto a private sub-struct: the callers are
    # entries themselves, so the region still covers their code)
    OPTIONAL = ("decode_message", "decode_response")
    entries = []
    for rx in ENTRY_RX:
        if any(rx.rstrip("$").endswith(o) for o in OPTIONAL) and not F.find_bodies(rx):
            continue
        entries.append(F.one_body(rx))
    for tr, m in (("selium_std::traits::codec::MessageDecoder", "decode"), ("selium_std::traits::compression::Decompress", "decompress")):
        ims = F.impls_of(tr)
        ctx.floor("C06.impls.%s" % m, len(ims), 3 if m == "decode" else 4)
        for im in ims:
            entries.append(F.body(im["items"][m]))
    # hand-written serde visitors / Deserialize impls of wire types run inside bincode::deserialize on peer bytes
    for im in F.impls:
        if (im.get("trait") or "").startswith(("serde::de::Visitor", "serde::de::Deserialize", "serde::de::DeserializeSeed")) and not im.get("derived") and \
                (im.get("self") or "").lstrip("<").startswith(("selium_protocol::", "selium_std::")):
            for m_, path_ in sorted(im.get("items", {}).items()):
                if path_ in F.bodies and F.bodies[path_] not in entries:
                    entries.append(F.bodies[path_])
    stop = {p for p, b in F.bodies.items() if (b.name in STOP and ("selium_std::traits" in (b.impl_trait or "") or "Replier" in p or "Requestor" in p or "Publisher" in p))}
    region = F.region(entries, stop=stop)
    bodies = sorted(region.values(), key=lambda b: b.path)
    ctx.floor("C06.region", len(bodies), 20)

    def skip(site):
        # derive-generated and logging formatting code is not fed by wire values
        return site.body.path in F.derived_bodies()
    sites = panics.analyse(ctx, bodies, "C06.no-panic", skip=skip, F=F)
    # no decoding step may call itself once per frame / element of the input: the depth of such a recursion is chosen by the peer and
    # ends in a stack overflow (an abort no caller can catch). Decided for the wire decoders and the client paths that consume what they produce.
    rec = []
    for b in bodies:
        if b.crate not in RECURSION_CRATES:
            continue
        for c in b.calls():
            if (c.t.get("resolved") or "") == b.path or (strip_generics(c.callee) == strip_generics(b.path) and c.t.get("callee_local")):
                rec.append((b, c))
    for b, c in rec:
        ctx.fail("C06.no-recursion", "recursion:%s" % b.path.split("::")[-1].split(">")[0] + ":" + b.path.rsplit("::", 2)[-2][:40],
                 "%s calls itself on input-dependent data: the peer chooses the recursion depth (stack overflow aborts the process)" % b.path, c.span)
    if not rec:
        ctx.ok("C06.no-recursion", "no self-recursive function among the %d decoder functions of %s" % (len([b for b in bodies if b.crate in RECURSION_CRATES]), "/".join(RECURSION_CRATES)))
    ctx.extra["region_functions"] = [b.path for b in bodies]
    ctx.extra["site_kinds"] = {}
    for s in sites:
        ctx.extra["site_kinds"][s.kind] = ctx.extra["site_kinds"].get(s.kind, 0) + 1
