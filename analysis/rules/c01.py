"""C01 — pub/sub fan-out: every subscriber gets every message once, in publisher order."""
from .. import flow
from . import routers, sweeps, c07, common as K

EXPLANATION = (
    "Structural conditions decided statically: (D1) PollAI on the pub/sub router — single-slot FIFO discipline (K1 no overwrite of buffered_item, "
    "K9 nothing is handed to the fan-out while buffered_item still holds a message, K6 no poll can go round for ever without consuming anything (a spinning router delivers nothing), routing facts: only items yielded by the publisher streams are "
    "stored and sent), K3 poll_ready before start_send; (D2) FanoutMany sweep rule — every iteration path of each of the four Sink methods handles "
    "exactly one entry and then advances or evicts it, the bound is re-read after evictions (index rule, E4), the item flows only into clone() and "
    "the elements' start_send; (D3) flush obligations — K4/K5/K10 (no park while dirty / with unregistered sources, nothing dropped unflushed) and "
    "K7 (at shutdown the buffer is delivered and flushed); (D4) no cross-topic delivery — topic map keyed by this stream's TopicName with derived "
    "Hash/Eq over both fields, each router owns its own StreamMap/FanoutMany. Byte equality on the wire, fairness and timing are NOT decided.")
ASSUMPTIONS = ["operation table of DESIGN §5", "FramedWrite/quinn deliver what is flushed, in order"]


def run(ctx):
    F = ctx.facts("quick")
    K.socket_pass_through(ctx, F, "C01.D5")
    ex, sd, cfg = routers.report(ctx, F, "pubsub", "C01", lambda f: f.kind in ("K1", "K3", "K4", "K5", "K6", "K7", "K9", "K10", "K13"))
    ctx.floor("C01.pollai.persistent-states", len(ex.persistent), 4)
    ops = ex.h.ops_seen
    ctx.floor("C01.pollai.sink-ops", sum(1 for k in ops if k[0] == "sink"), 3)
    routing = ex.h.routing
    sends = sorted(t for (k, o, t) in routing if k == "send" and o == "sink")
    stores = sorted(t for (k, o, t) in routing if k == "store" and o == "buffered_item" and t != "?")
    ctx.check(sends == ["stream"], "C01.D1.routing", "pubsub:sent-values", "the only values handed to the fan-out are items yielded by the publisher streams (found sources: %s)" % sends, cfg.body.span)
    ctx.check(stores == ["stream"], "C01.D1.routing", "pubsub:stored-values", "the only values buffered are items yielded by the publisher streams (found sources: %s)" % stores, cfg.body.span)
    ctx.ok("C01.pollai", "pub/sub router explored exhaustively: %d persistent states, %d (block,state) nodes; shutdown obligation from %d states" % (len(ex.persistent), len(ex.it.nodes), len(sd.persistent)), cfg.body.span)
    sweeps.counter_keys(ctx, F, cfg.body, ex.h.routing, "C01.D1", {"stream": "next_stream_id", "sink": "next_sink_id"})
    for m in sweeps.METHODS:
        sweeps.fanout_sweep(ctx, F, "C01.D2", m)
    # index/bound freshness of the sweep (shared with C11's E4 region)
    from .. import panics
    bodies = [F.impl_method("futures_sink::Sink", sweeps.FAN, m) for m in sweeps.METHODS]
    sites = panics.analyse(ctx, bodies, "C01.D2.sweep-bound", include_alloc=False)
    ctx.floor("C01.D2.sweep-bound.bodies", len(bodies), 4)      # (not the number of panic-capable sites: fewer of those is no defect)
    c07.d5(ctx, F)
    # "forwarded byte-for-byte to every healthy subscriber" includes frames near the size limit: what the decoder accepts from a
    # publisher the encoder must accept towards the subscribers (C05.D3: both sides apply the limit to the same quantity)
    from . import c05
    c05.d3(ctx, F)
    # each router owns its collections: constructed in pair(), never shared
    pair = F.body("selium_server::topic::pubsub::Topic::<T, E>::pair")
    ctx.touch(pair)
    news = [c.name() for c in pair.calls() if strip(c.callee) in ("tokio_stream::stream_map::StreamMap::new", "selium_server::sink::fanout_many::FanoutMany::new", "futures_channel::mpsc::channel")]
    ctx.check(sorted(news) == ["channel", "new", "new"], "C01.D4.own-collections", "pubsub:pair-shares", "Topic::pair() builds a fresh StreamMap, FanoutMany and channel for every topic", pair.span)


def strip(x):
    from ..facts import strip_generics
    return strip_generics(x)
