"""C03 — end-to-end pub/sub fidelity on the client: batch order, finish() flushes, symmetric pipeline,
no configuration crashes the publisher."""
from .. import flow, panics
from ..facts import strip_generics, op_local, rv_locals
from . import common as K

EXPLANATION = (
    "Decided on the client's MIR: (D1) orientation parity — along the batching pipeline (MessageBatch::push, MessageBatch::drain, "
    "encode_message_batch, decode_message_batch, the subscriber's store and hand-out of the decoded batch) the number of order reversals "
    "(pop/pop_back/rev/reverse/insert(0)) is even and no order-destroying primitive (swap_remove, sort) occurs; (D2) Publisher::finish frames "
    "the partial batch (flush_batch) before finishing, and on every path to quinn::SendStream::finish the framed writer is flushed/closed first "
    "(in Publisher::finish or BiStream::finish); (D3) per frame kind the subscriber applies exactly the inverse transforms of the publisher in "
    "inverse order, compression/decompression both optional on their configured Option; (D4) no undischarged panic/allocation site reachable from "
    "any batching configuration (MessageBatch::*, From<BatchConfig>, Publisher::poll_ready/start_send/send_batch/flush_batch). Value equality, "
    "the exact cut-off arithmetic of size/interval and behaviour over a real server are NOT decided.")
ASSUMPTIONS = ["tokio_util FramedWrite::start_send only buffers; SinkExt::flush/close drive poll_flush to completion",
               "Vec::push appends, Vec::drain(..) and slice::iter yield front-to-back"]

PUB = "selium::streams::pubsub::publisher::Publisher::<E, Item>::"
MB = "selium::batching::message_batch::MessageBatch::"
REVERSING = {"alloc::vec::Vec::pop": "pop (tail first)", "core::slice::<impl [T]>::reverse": "reverse()", "core::iter::traits::iterator::Iterator::rev": ".rev()",
             "alloc::collections::vec_deque::VecDeque::pop_back": "pop_back", "core::iter::traits::double_ended::DoubleEndedIterator::next_back": "next_back"}
ORDER_DESTROYING = {"alloc::vec::Vec::swap_remove", "core::slice::<impl [T]>::sort", "core::slice::<impl [T]>::sort_unstable", "alloc::slice::<impl [T]>::sort",
                    "alloc::slice::<impl [T]>::sort_by", "core::slice::<impl [T]>::sort_unstable_by", "alloc::slice::<impl [T]>::sort_by_key",
                    "std::collections::hash::set::HashSet::insert", "alloc::collections::binary_heap::BinaryHeap::push"}
FRONT = {"alloc::vec::Vec::remove", "alloc::collections::vec_deque::VecDeque::pop_front", "core::iter::traits::iterator::Iterator::next", "alloc::vec::Vec::drain"}


def reversal_scan(ctx, F, bodies, what):
    """returns (reversals, details) over the listed bodies (+ their closures)"""
    n = 0
    det = []
    for b in bodies:
        ctx.touch(b)
        for c in b.calls():
            s = strip_generics(c.callee)
            if s in REVERSING and ("Bytes" in c.full or "Bytes" in " ".join(c.arg_tys)):
                n += 1
                det.append("%s in %s" % (REVERSING[s], b.path.rsplit("::", 2)[-2] + "::" + b.path.rsplit("::", 1)[-1]))
            if s == "alloc::vec::Vec::insert" and "Bytes" in c.full and flow.const_of(c.args[1]) == 0:
                n += 1
                det.append("insert(0, ..) in %s" % b.path)
            if s in ORDER_DESTROYING and "Bytes" in c.full:
                ctx.fail("C03.D1.order-preserving", "order-destroying:%s:%s" % (b.path, c.name()), "%s on the message batch in %s does not preserve order" % (c.name(), b.path), c.span)
    return n, det


def d1(ctx, F):
    sub = F.one_body(r"^<selium::streams::pubsub::subscriber::Subscriber<D, Item> as futures_core::stream::Stream>::poll_next$")
    stages = [F.body(MB + "push"), F.body(MB + "drain"), F.inlined(F.body("selium_protocol::utils::encode_message_batch")), F.inlined(F.body("selium_protocol::utils::decode_message_batch")), sub]
    allb = []
    for b in stages:
        allb.append(b)
        allb += F.closures_of(b)
    # the publisher's own handling between drain and encode
    sb = F.body(PUB + "send_batch")
    allb.append(sb)
    n, det = reversal_scan(ctx, F, allb, "batch")
    # primitives present (floor)
    prim = [c for b in allb for c in b.calls() if strip_generics(c.callee) in ("alloc::vec::Vec::push", "alloc::vec::Vec::drain", "alloc::vec::Vec::pop", "core::slice::<impl [T]>::iter") or strip_generics(c.callee) in FRONT]
    ctx.floor("C03.D1.parity.primitives", len(prim), 4)
    ctx.check(n % 2 == 0, "C03.D1.parity", "batch-order-parity",
              "messages of a batch are handed out in the order they were pushed: %d order reversal(s) along push -> drain -> encode -> decode -> hand-out (%s)" % (n, "; ".join(det) or "none"), sub.span)
    # the batch that is consumed is the one stored from decode_message_batch
    dm = sub.calls_to("selium_protocol::utils::decode_message_batch")
    ctx.check(len(dm) == 1, "C03.D1.parity", "subscriber:decode-sites", "the subscriber decodes a batch frame with decode_message_batch once", sub.span)


def flush_calls(body):
    out = []
    for c in body.calls():
        s = strip_generics(c.callee)
        if s in ("futures_util::sink::SinkExt::flush", "futures_util::sink::SinkExt::close", "futures_sink::Sink::poll_flush", "futures_sink::Sink::poll_close",
                 "futures_util::sink::SinkExt::poll_flush_unpin", "futures_util::sink::SinkExt::poll_close_unpin"):
            out.append(c)
    return out


def awaited_completion_block(body, call):
    """block reached once the future returned by `call` completed with Ok (`?`) / Ready"""
    for a in flow.awaits(body):
        if a.source is call:
            return a.ready_block()
    return call.target


def d2(ctx, F):
    pf = F.one_body(r"^selium::streams::pubsub::publisher::Publisher::<E, Item>::finish::\{closure#0\}$")
    bf = F.one_body(r"^selium_protocol::bistream::BiStream::finish::\{closure#0\}$")
    ctx.touch(pf, bf)
    bf = F.inlined(bf, only=("selium_protocol::bistream::",))          # private async steps of finish() are looked through
    fb = pf.calls_to(PUB + "flush_batch")
    sf = pf.calls_to("selium_protocol::bistream::BiStream::finish")
    if PUB + "flush_batch" not in F.bodies:
        # the flush helper has been folded into finish(): the same obligations, stated on finish() itself — a non-empty batch is
        # sent (send_batch) on every path to BiStream::finish
        keepf = [PUB + "send_batch", "selium_protocol::bistream::BiStream::finish", "selium_protocol::bistream::BiStream::finish::{closure#0}"] + [p_ for p_ in F.bodies if p_.startswith(MB)]
        pfi = F.inlined(pf, keep=keepf)
        sbc = pfi.calls_to(PUB + "send_batch")
        ie = pfi.calls_to(MB + "is_empty")
        sfi = pfi.calls_to("selium_protocol::bistream::BiStream::finish")
        ok = False
        if len(sbc) == 1 and len(ie) == 1 and len(sfi) == 1:
            for i, bl in enumerate(pfi.blocks):
                sc = flow.switch_condition(pfi, i)
                if sc and sc.get("kind") == "call" and sc["call"] is ie[0]:
                    nonempty = sc["true"] if sc.get("neg") else sc["false"]
                    empty = sc["false"] if sc.get("neg") else sc["true"]
                    ok = sbc[0].bb in pfi.reachable(nonempty) and sbc[0].bb not in flow.reach_avoiding(pfi, [empty], [i]) and \
                        sfi[0].bb not in flow.reach_avoiding(pfi, [nonempty], [sbc[0].bb, i])
        ctx.check(ok, "C03.D2.partial-batch", "finish:flush_batch-not-first", "finish() sends the partially filled batch (send_batch when the batch is not empty) on every path before the stream is finished", pf.span)
        ctx.check(True, "C03.D2.partial-batch", "flush_batch:condition", "(the flush helper is folded into finish(): condition checked there)", pf.span)
    elif ctx.check(len(fb) == 1 and len(sf) == 1, "C03.D2.partial-batch", "finish:shape", "Publisher::finish calls flush_batch and BiStream::finish", pf.span):
        te = K.try_edges(pf, fb[0])
        ok = pf.dominates(fb[0].bb, sf[0].bb) and te is not None and te[0] is not None and pf.dominates(te[0], sf[0].bb)
        ctx.check(ok, "C03.D2.partial-batch", "finish:flush_batch-not-first", "the partially filled batch is framed (flush_batch, error propagated) before the stream is finished", fb[0].span)
    # the finish users actually call (on the reconnecting wrapper) is that one: it must not bypass the batch flush by closing the sink itself
    kf = F.one_body(r"^selium::keep_alive::pubsub::KeepAlive::<selium::streams::pubsub::publisher::Publisher<E, Item>>::finish::\{closure#0\}$")
    ctx.touch(kf)
    deleg = [c for c in kf.calls() if strip_generics(c.t.get("resolved") or c.callee).startswith("selium::streams::pubsub::publisher::Publisher") and c.name() == "finish"]
    aw = [a for a in flow.awaits(kf) if a.source is not None and a.source in deleg]
    ctx.check(len(deleg) == 1 and len(aw) == 1, "C03.D2.partial-batch", "keepalive-finish:bypasses-publisher-finish",
              "KeepAlive<Publisher>::finish awaits Publisher::finish (which frames the partial batch) rather than closing the sink itself", kf.span)
    # flush_batch really sends a non-empty batch
    if PUB + "flush_batch" not in F.bodies:
        return _d2_rest(ctx, F, bf)
    fbb = F.body(PUB + "flush_batch")
    ctx.touch(fbb)
    fbb = F.inlined(fbb, keep=[PUB + "send_batch"] + [p_ for p_ in F.bodies if p_.startswith(MB)])
    sbc = fbb.calls_to(PUB + "send_batch")
    ie = fbb.calls_to(MB + "is_empty")
    ok = False
    if len(sbc) == 1 and len(ie) == 1:
        for i, bl in enumerate(fbb.blocks):
            sc = flow.switch_condition(fbb, i)
            if sc and sc.get("kind") == "call" and sc["call"] is ie[0]:
                nonempty = sc["true"] if sc.get("neg") else sc["false"]
                empty = sc["false"] if sc.get("neg") else sc["true"]
                ok = sbc[0].bb in fbb.reachable(nonempty) and sbc[0].bb not in flow.reach_avoiding(fbb, [empty], [i])
    ctx.check(ok, "C03.D2.partial-batch", "flush_batch:condition", "flush_batch sends the batch exactly when it is not empty", fbb.span)
    _d2_rest(ctx, F, bf)


def _d2_rest(ctx, F, bf):
    pf = F.one_body(r"^selium::streams::pubsub::publisher::Publisher::<E, Item>::finish::\{closure#0\}$")
    sf = pf.calls_to("selium_protocol::bistream::BiStream::finish")
    fb = pf.calls_to(PUB + "flush_batch")
    # framed writer flushed before SendStream::finish
    qf = [c for c in bf.calls() if strip_generics(c.callee) == "quinn::send_stream::SendStream::finish"]
    ctx.floor("C03.D2.flush-before-finish.sites", len(qf), 1)
    for c in qf:
        ok = False
        for fl in flush_calls(bf):
            done = awaited_completion_block(bf, fl)
            if done is not None and bf.dominates(done, c.bb):
                ok = True
        if not ok and sf:
            # or in the caller, after the last possible start_send (flush_batch) and before BiStream::finish
            for fl in flush_calls(pf):
                done = awaited_completion_block(pf, fl)
                if done is not None and pf.dominates(done, sf[0].bb) and fb and pf.dominates(fb[0].bb, fl.bb):
                    ok = True
        ctx.check(ok, "C03.D2.flush-before-finish", "finish:unflushed-writer",
                  "frames buffered in the framed writer are flushed (SinkExt::flush/close completed) before quinn::SendStream::finish", c.span)


def pipeline_ops(body, blocks=None):
    """ordered (RPO) list of pipeline primitives in the given blocks"""
    names = {
        "selium_std::traits::codec::MessageEncoder::encode": "encode", "selium_std::traits::codec::MessageDecoder::decode": "decode",
        "selium_std::traits::compression::Compress::compress": "compress", "selium_std::traits::compression::Decompress::decompress": "decompress",
        "selium_protocol::utils::encode_message_batch": "batch", "selium_protocol::utils::decode_message_batch": "unbatch",
        "selium::streams::pubsub::subscriber::Subscriber::decode_message": "decode", PUB.replace("::<E, Item>", "") + "send_single": "->single",
        MB + "push": "push", "selium::streams::pubsub::publisher::Publisher::send_single": "->single",
    }
    order = []
    seen = set()

    def dfs(n):
        seen.add(n)
        for s in body.succ_map()[n]:
            if s not in seen:
                dfs(s)
        order.append(n)
    dfs(0)
    pos = {b: i for i, b in enumerate(reversed(order))}
    out = []
    for c in sorted(body.calls(), key=lambda c: pos.get(c.bb, 1e9)):
        if blocks is not None and c.bb not in blocks:
            continue
        s = strip_generics(c.callee)
        if s in names:
            # optional? (inside an `if let Some(..)` on an Option of the compression object)
            out.append((names[s], c))
    return out


def is_optional(body, call, field_hint):
    """the call is dominated by the Some-edge of a switch on an Option<..> and skipped on the None edge"""
    for i, bl in enumerate(body.blocks):
        v = flow.switch_on_variant(body, i)
        if v and v[1] == "core::option::Option" and ("Compress" in v[5] or "Decompress" in v[5]) and body.dominates(i, call.bb) and i != call.bb:
            some_t = v[2].get("Some", v[3])
            none_t = v[2].get("None", v[3])
            if call.bb in flow.reach_avoiding(body, [some_t], [i]) and call.bb not in flow.reach_avoiding(body, [none_t], [i]):
                return True
    return False


def d3(ctx, F):
    ss_folded = PUB + "send_single" not in F.bodies          # the single-frame helper folded into start_send
    ss = F.body(PUB + "send_single") if not ss_folded else None
    sb = F.body(PUB + "send_batch")
    st = F.one_body(r"^<selium::streams::pubsub::publisher::Publisher<E, Item> as futures_sink::Sink<Item>>::start_send$")
    sub = F.one_body(r"^<selium::streams::pubsub::subscriber::Subscriber<D, Item> as futures_core::stream::Stream>::poll_next$")
    dm = F.body("selium::streams::pubsub::subscriber::Subscriber::<D, Item>::decode_message")
    ctx.touch(*[x for x in (ss, sb, st, sub, dm) if x is not None])
    # private helpers (e.g. a shared `compress_payload` / `decompress`) are looked through; the stage functions themselves stay calls
    keep = [PUB + "send_single", PUB + "send_batch", PUB + "flush_batch", dm.path, "selium_protocol::utils::encode_message_batch", "selium_protocol::utils::decode_message_batch"] + \
           [p for p in F.bodies if p.startswith(MB) or p.startswith("<selium::batching")]
    ss, sb, st, sub, dm = [F.inlined(x, keep=keep) if x is not None else None for x in (ss, sb, st, sub, dm)]

    def shape(body, blocks=None):
        return [(n + ("?" if is_optional(body, c, None) else "")) for n, c in pipeline_ops(body, blocks)]
    frames = lambda b: [rv["variant"] for i, j, pl, rv, s in K.aggregates(b, "selium_protocol::frame::Frame")]
    single_region = None
    if ss_folded:
        # the un-batched branch of start_send is the single-frame path
        for i, bl in enumerate(st.blocks):
            v = flow.switch_on_variant(st, i)
            if v and v[1] == "core::option::Option" and "MessageBatch" in st.local_ty(v[0]["l"]):
                some_t, none_t = v[2].get("Some", v[3]), v[2].get("None", v[3])
                single_region = flow.reach_avoiding(st, [none_t], [i]) - flow.reach_avoiding(st, [some_t], [i])
        if not ctx.check(single_region is not None, "C03.D3.publisher-shape", "publisher:no-batch-test", "start_send tests whether batching is configured", st.span):
            return
        ss_shape = [x for x in shape(st, single_region) if x != "push"]
        ss_frames = [rv["variant"] for i, j, pl, rv, s in K.aggregates(st, "selium_protocol::frame::Frame", single_region)]
    else:
        ss_shape, ss_frames = shape(ss), frames(ss)
    # when a compressor is configured every frame is compressed — whatever the payload (the receiving side decompresses whenever a
    # decompressor is configured): from the Some edge of the test of the compressor, no frame is built without passing compress()
    for body_, label in ((st if ss_folded else ss, "single"), (sb, "batch")):
        for i, bl in enumerate(body_.blocks):
            v = flow.switch_on_variant(body_, i)
            if not (v and v[1] == "core::option::Option" and "Compress" in v[5]):
                continue
            some_t = v[2].get("Some", v[3])
            comp = [c for c in body_.calls() if strip_generics(c.callee) == "selium_std::traits::compression::Compress::compress" and c.bb in flow.reach_avoiding(body_, [some_t], [i])]
            builds = [i2 for i2, j2, pl2, rv2, s2 in K.aggregates(body_, "selium_protocol::frame::Frame")]
            skipping = [i2 for i2 in builds if i2 in flow.reach_avoiding(body_, [some_t], [c.bb for c in comp] + [i])]
            # .. and the Option tested is the configured compressor itself (as_ref / copies), not a filtered view of it
            cur, narrowed = v[0]["l"], []
            for _ in range(6):
                d_ = flow.single_def(body_, cur)
                if d_ and d_[0] == "call":
                    if d_[2].name() not in ("as_ref", "as_mut", "as_deref", "as_deref_mut", "clone", "copied", "cloned", "deref", "borrow"):
                        narrowed.append(d_[2])
                    cur = op_local(d_[2].args[0]) if d_[2].args else None
                elif d_ and d_[0] == "assign" and d_[3]["k"] in ("use", "ref"):
                    pl_ = d_[3]["op"]["pl"] if d_[3]["k"] == "use" and d_[3]["op"].get("k") in ("copy", "move") else d_[3].get("pl")
                    cur = pl_["l"] if pl_ and not [e for e in pl_["p"] if e != "*"] else None
                else:
                    cur = None
                if cur is None:
                    break
            skipping += [c.bb for c in narrowed]
            ctx.check(bool(comp) and not skipping, "C03.D3.compress-unconditional", "publisher:%s:compression-skipped" % label,
                      "with a compressor configured, every %s frame is built from compressed bytes (no payload-dependent bypass)" % label, bl["term"].get("span", body_.span))
    pub_single = shape(st)[:1] + ss_shape
    pub_batch = shape(st)[:1] + shape(sb)
    ctx.check(shape(st)[:1] == ["encode"] and ss_frames == ["Message"] and frames(sb) == ["BatchMessage"], "C03.D3.publisher-shape", "publisher:pipeline-shape",
              "publisher: start_send encodes; the single-frame path builds Frame::Message from %s; send_batch builds Frame::BatchMessage from %s" % (ss_shape, shape(sb)), st.span)
    sws = K.find_variant_switches(sub, "selium_protocol::frame::Frame")
    if not ctx.check(len(sws) == 1, "C03.D3.subscriber-shape", "subscriber:frame-match", "the subscriber matches once on the frame kind", sub.span):
        return
    arms, adt, pl, other, allv = K.arm_map(sub, sws[0])
    inv = {"encode": "decode", "compress?": "decompress?", "compress": "decompress", "batch": "unbatch"}
    dmshape = shape(dm)
    for kind, pubshape in (("Message", pub_single), ("BatchMessage", pub_batch)):
        got = shape(sub, arms.get(kind, set()))
        # decode_message (per message) performs the final decode; for batches it is applied per popped message
        got_full = []
        for g in got:
            got_full.append(g)
        if kind == "BatchMessage":
            # (recursive form: the popped message is decoded at the head of the next poll_next; loop form: the arm continues into it)
            got_full = got if got[-1:] == ["decode"] else got + ["decode"]
        want = [inv.get(x, x) for x in reversed(pubshape)]
        ctx.check(got_full == want and dmshape == ["decode"], "C03.D3.inverse-pipeline", "pipeline-asymmetric:%s" % kind,
                  "%s frames: publisher applies %s, subscriber applies %s (expected the inverse %s)" % (kind, pubshape, got_full, want), sub.span)
    # batching decision: with a batch configured, start_send pushes and does not send a single frame
    okb = False
    for i, bl in enumerate(st.blocks):
        v = flow.switch_on_variant(st, i)
        if v and v[1] == "core::option::Option":
            some_t, none_t = v[2].get("Some", v[3]), v[2].get("None", v[3])
            some_calls = [n for n, c in pipeline_ops(st, flow.reach_avoiding(st, [some_t], [i]) - flow.reach_avoiding(st, [none_t], [i]))]
            none_calls = [n for n, c in pipeline_ops(st, flow.reach_avoiding(st, [none_t], [i]) - flow.reach_avoiding(st, [some_t], [i]))]
            if some_calls == ["push"] and none_calls == ["->single"]:
                okb = True
            if ss_folded and some_calls == ["push"] and "push" not in none_calls and single_region is not None and \
                    [rv["variant"] for i2, j2, pl2, rv, s2 in K.aggregates(st, "selium_protocol::frame::Frame", single_region)] == ["Message"]:
                okb = True
    ctx.check(okb, "C03.D3.batching-branch", "start_send:branch", "start_send pushes into the batch when batching is on and sends a single frame otherwise", st.span)


def d4(ctx, F):
    # a batch taken out of the MessageBatch is framed and handed to the transport in the same step: no `Pending` return (nor any other
    # non-error return) lies between drain() and start_send — the drained messages would be dropped with the local frame
    keepd = [p_ for p_ in F.bodies if p_.startswith(MB) or p_.startswith("<selium::batching")] + ["selium_protocol::utils::encode_message_batch"]
    for meth in ("poll_ready", "poll_flush", "poll_close"):
        pb = F.inlined(F.one_body(r"^<selium::streams::pubsub::publisher::Publisher<E, Item> as futures_sink::Sink<Item>>::%s$" % meth), keep=keepd)
        drains = [c for c in pb.calls() if c.name() in ("drain", "take", "take_batch") and ("MessageBatch" in (c.self_ty or "") or "message_batch" in c.callee)]
        sends = [c for c in pb.calls() if c.name() in ("start_send", "start_send_unpin")]
        for dcall in drains:
            after = flow.reach_avoiding(pb, [dcall.target] if dcall.target is not None else [], [c.bb for c in sends])
            pend = [s_.get("span", pb.span) for i_, j_, pl_, rv_, s_ in pb.assigns() if i_ in after and rv_["k"] == "agg" and rv_.get("adt") == "core::task::poll::Poll" and rv_.get("variant") == "Pending"]
            ctx.check(not pend, "C03.D4.drained-batch-sent", "publisher:%s:pending-after-drain" % meth,
                      "Publisher::%s hands a drained batch to the transport before it can return Pending" % meth, (pend or [dcall.span])[0])
    bodies = [b for p, b in sorted(F.bodies.items()) if p.startswith(MB) or p.startswith("<selium::batching::message_batch::MessageBatch as ")]
    bodies += [F.body(x) for x in (PUB + "send_batch", PUB + "flush_batch", PUB + "send_single") if x in F.bodies or x == PUB + "send_batch"]
    for m in ("poll_ready", "start_send", "poll_flush", "poll_close"):
        bodies.append(F.one_body(r"^<selium::streams::pubsub::publisher::Publisher<E, Item> as futures_sink::Sink<Item>>::%s$" % m))
    bodies += [b for p, b in sorted(F.bodies.items()) if p.startswith("selium::batching::batch_config::BatchConfig::")]

    def send_batch_unwrap(site, body):
        # `self.batch.as_mut().unwrap()` in send_batch: every caller reaches it only on the Some edge of a test of self.batch
        if site.kind == "unwrap" and body.path == PUB + "send_batch" and site.what.startswith("Option"):
            callers = F.callers_of(PUB.replace("::<E, Item>", "") + "send_batch", PUB + "send_batch")
            okall = bool(callers)
            for c0 in callers:
                # the caller with its predicate helpers / `is_some_and(..)` written out, send_batch itself kept as a call
                b = F.inlined(c0.body, keep=[PUB + "send_batch"] + [p_ for p_ in F.bodies if p_.startswith(MB)])
                cs = [x for x in b.calls() if x.is_(PUB.replace("::<E, Item>", "") + "send_batch", PUB + "send_batch")]
                ok = bool(cs)
                for c in cs:
                    okc = False
                    for i, bl in enumerate(b.blocks):
                        v = flow.switch_on_variant(b, i)
                        if v and v[1] == "core::option::Option" and b.dominates(i, c.bb):
                            some_t, none_t = v[2].get("Some", v[3]), v[2].get("None", v[3])
                            if c.bb in flow.reach_avoiding(b, [some_t], [i]) and c.bb not in flow.reach_avoiding(b, [none_t], [i]):
                                okc = True
                    ok &= okc
                okall &= ok
            if okall:
                return "D6: every caller (%d) reaches send_batch only after matching self.batch as Some" % len(callers)
        return None
    sites = panics.analyse(ctx, bodies, "C03.D4.no-config-panic", extra_rules=[send_batch_unwrap], F=F)
    ctx.floor("C03.D4.bodies", len(bodies), 8)


def d5(ctx, F):
    """the transforms inside the pipeline are themselves whole: compressors finish, decompressors read to the end, and the batch reader
    accepts exactly what the batch writer produces (rules of C14.D1 and C05.D5)"""
    from . import c14, c05
    c14.d1(ctx, F)
    c14.decomp_whole_output(ctx, F, "C03.D5")
    c05.d5(ctx, F)
    c05.d5_guard_exactness(ctx, F)
    # "all payload sizes up to the frame limit": the frame codec's two sides agree on what the limit is applied to (C05.D3)
    c05.d3(ctx, F)
    # frames are reassembled whatever the chunking of the transport (C05.D4): a decoder that panics on a particular cut kills the
    # topic's router or the subscriber's task
    c05.d4(ctx, F)


def d6(ctx, F):
    """no lost wake-up on the consuming side: the subscriber (and the reconnecting wrapper around it) never answers Pending without
    a wake-up arranged in the same call — an item that has arrived would otherwise never be yielded"""
    n = 0
    for p_, b in sorted(F.bodies.items()):
        if b.crate == "selium" and (b.name or "").startswith("poll") and not b.is_coroutine and ("Subscriber" in p_ or "Publisher" in p_ or ("keep_alive::pubsub" in p_ and b.name == "poll_next")) and p_.startswith("<"):
            ctx.touch(b)
            n += 1
            K.pending_discipline(ctx, F, b, "C03.D6.pending-has-waker", p_.split(" as ")[0].rsplit("::", 1)[-1].split("<")[0] + "::" + b.name)
    ctx.floor("C03.D6.poll-fns", n, 4)


def d7(ctx, F):
    """each accepted item is sent once: a publisher's pending batch is never copied (`duplicate()` starts with an empty batch of the same
    configuration) — type-level: MessageBatch is not Clone/Copy; and what the router hands to the fan-out is flushed to every subscriber
    (FanoutMany::poll_flush answers Ready only after a complete sweep)"""
    bad = [i.get("trait") for i in F.impls_of(self_adt="selium::batching::message_batch::MessageBatch") if i.get("trait") in ("core::clone::Clone", "core::marker::Copy")]
    ctx.check(not bad, "C03.D7.batch-not-cloned", "messagebatch-cloneable", "MessageBatch (which owns the queued messages) is not Clone: a duplicated publisher cannot inherit queued items (%s)" % (bad or "no Clone impl"))
    from . import sweeps
    sweeps.fanout_sweep(ctx, F, "C03.D7", "poll_flush")


def run(ctx):
    F = ctx.facts("quick")
    K.socket_pass_through(ctx, F, "C03.D8")
    # what the publisher framed is relayed: the wire decoder refuses no well-formed frame of either kind (C05.D1 decode-total), and the
    # topic's router neither overwrites nor discards a frame it has taken (K1 / K13 of the pub/sub router)
    from . import c05, routers
    c05.try_from_table(ctx, F)
    routers.report(ctx, F, "pubsub", "C03", lambda f: f.kind in ("K1", "K13"))
    d1(ctx, F)
    d2(ctx, F)
    d3(ctx, F)
    d4(ctx, F)
    d5(ctx, F)
    d6(ctx, F)
    d7(ctx, F)
