"""C04 — end-to-end request/reply on the client: ids, registration before send, match by id, echo, timeout."""
from .. import flow
from ..facts import strip_generics, op_local, rv_locals
from . import common as K

EXPLANATION = (
    "Decided on the client's MIR: (D1) RequestId::next_id is a single atomic fetch_add with no separate load/store, the id source is shared "
    "behind Arc and is not cloneable by value; (D2) the pending-map entry is inserted under the id returned by next_id, that same value is "
    "returned to request(), put in the `req_id` header, and the registration completes before the frame is sent; (D3) the reply task hands a "
    "reply's message to the sender removed from the pending map under the id parsed from that reply's own `req_id` header, and to nobody else; "
    "(D4) the replier's response carries the request's header map unmodified; (D5) the one-shot receiver is consumed only by "
    "timeout(self.request_timeout, rx), whose Elapsed arm maps to SeliumError::RequestTimeout. Durations, u32 wrap after 2^32 requests and "
    "server-side routing (C02) are NOT decided here.")
ASSUMPTIONS = ["tokio oneshot delivers a value to exactly the paired receiver", "AtomicU32::fetch_add is atomic"]

RQ = "selium::streams::request_reply::requestor::"
RP = "selium::streams::request_reply::replier::"
HDR = "req_id"


def d1(ctx, F):
    b = F.body("selium_protocol::request_id::RequestId::next_id")
    ctx.touch(b)
    atomics = [c for c in b.calls() if "core::sync::atomic::Atomic" in c.callee]
    names = [c.name() for c in atomics]
    ctx.check(names == ["fetch_add"], "C04.D1.atomic-id", "next_id:not-single-rmw",
              "RequestId::next_id performs exactly one atomic read-modify-write (found %s)" % names, b.span)
    if names == ["fetch_add"]:
        ctx.check(flow.const_of(atomics[0].args[1]) == 1 and atomics[0].dest["l"] == 0, "C04.D1.atomic-id", "next_id:increment",
                  "it adds 1 and returns the previous value", atomics[0].span)
    clones = [i for i in F.impls_of(self_adt="selium_protocol::request_id::RequestId") if i.get("trait") in ("core::clone::Clone", "core::marker::Copy")]
    ctx.check(not clones, "C04.D1.shared-counter", "requestid-cloneable", "RequestId is not Clone/Copy (clones of a requestor share one counter)")
    rq = F.adt(RQ + "Requestor")
    f = {x["name"]: x["ty"] for x in rq["variants"][0]["fields"]}
    ctx.check(f.get("request_id", "").startswith("alloc::sync::Arc<selium_protocol::request_id::RequestId>"), "C04.D1.shared-counter", "requestor-counter-not-arc",
              "Requestor holds its id source as Arc<RequestId> (found %s)" % f.get("request_id"))
    ctx.check(f.get("pending_requests", "").startswith("alloc::sync::Arc<"), "C04.D1.shared-counter", "requestor-pending-not-arc",
              "Requestor clones share one pending-request map (Arc)")
    cl = [i for i in F.impls_of("core::clone::Clone", RQ + "Requestor")]
    ctx.check(len(cl) == 1 and cl[0]["derived"], "C04.D1.shared-counter", "requestor-clone-handwritten", "Requestor's Clone is the derived one (Arc::clone of the shared parts)")


NEXT_ID = "selium_protocol::request_id::RequestId::next_id"


def request_body(ctx, F):
    """Requestor::request's coroutine with its private (async) helpers — queue_request, any extracted tail — looked through"""
    r0 = F.one_body(r"^selium::streams::request_reply::requestor::Requestor::<E, D, ReqItem, ResItem>::request::\{closure#0\}$")
    ctx.touch(r0)
    for p_, b_ in F.bodies.items():
        if p_.startswith(RQ + "Requestor::<E, D, ReqItem, ResItem>::queue_request"):
            ctx.touch(b_)
    return F.inlined(r0, keep=(NEXT_ID,))


def spawned_bodies(F, body):
    """coroutine bodies handed to tokio::spawn in `body` (an async block, or a call of an async fn), helpers looked through"""
    ib = F.inlined(body)
    out = []
    for c in ib.calls():
        if strip_generics(c.callee) in ("tokio::task::spawn::spawn", "tokio::spawn") and c.args:
            r = flow.root(ib, c.args[0], through_calls=())
            if r[0] == "rv" and r[1]["k"] == "agg" and r[1].get("closure") in F.bodies:
                out.append(F.bodies[r[1]["closure"]])
    return out


def d2(ctx, F):
    r = request_body(ctx, F)
    nid = r.calls_to(NEXT_ID)
    ins = [c for c in r.calls() if strip_generics(c.callee) == "std::collections::hash::map::HashMap::insert" and "oneshot::Sender" in c.full]
    ch = [c for c in r.calls() if strip_generics(c.callee) == "tokio::sync::oneshot::channel"]
    idv = set()
    if ctx.check(len(nid) == 1 and len(ins) == 1, "C04.D2.register", "queue_request:shape", "a request draws one id and inserts one pending entry", r.span):
        idv = flow.derived(r, {nid[0].dest["l"]}, calls=())
        ctx.check(op_local(ins[0].args[1]) in idv, "C04.D2.register", "queue_request:key-not-id", "the pending entry is keyed by the id just drawn", ins[0].span)
        okv = False
        if len(ch) == 1:
            chv = flow.derived(r, {ch[0].dest["l"]}, calls=())
            okv = op_local(ins[0].args[2]) in chv
            # the receiver that request() waits on is the other half of that very channel
            to = [c for c in r.calls() if strip_generics(c.callee) == "tokio::time::timeout::timeout"]
            okr = len(to) == 1 and op_local(to[0].args[1]) in flow.derived(r, {ch[0].dest["l"]}, calls=("core::ops::try_trait::Try::branch",))
            ctx.check(okr, "C04.D2.register", "queue_request:returns", "request() waits on the receiver paired with the inserted sender", (to or ins)[0].span)
        ctx.check(okv, "C04.D2.register", "queue_request:value", "the inserted value is the sender half of the fresh one-shot channel", ins[0].span)
    # registration precedes send; the header value is the id
    aw = flow.awaits(r)
    sa = [a for a in aw if a.source is not None and strip_generics(a.source.callee) == "futures_util::sink::SinkExt::send"]
    if not ctx.check(len(ins) == 1 and len(sa) == 1, "C04.D2.before-send", "request:shape", "request() registers once and sends one frame", r.span):
        return
    ctx.check(ins[0].target is not None and r.dominates(ins[0].target, sa[0].source.bb), "C04.D2.before-send", "request:send-before-register",
              "the frame is sent only after the pending entry was registered", sa[0].span)
    hins = [c for c in r.calls() if strip_generics(c.callee) == "std::collections::hash::map::HashMap::insert" and "String, alloc::string::String" in c.full]
    idall = flow.derived(r, {nid[0].dest["l"]}, calls="all") if nid else set()
    ok = False
    for c in hins:
        k = flow.root(r, c.args[1])
        kk = flow.const_of(k[1]) if k[0] == "const" else None
        if kk == HDR and op_local(c.args[2]) in idall:
            ok = True
    ctx.check(ok, "C04.D2.header", "request:header-not-id", "the `req_id` header carries the id the pending entry was registered under", (hins or [r])[0].span)
    # the frame sent contains that header map
    hv = flow.derived(r, {op_local(c.args[0]) for c in hins} | {flow.root_local(r, c.args[0]) for c in hins}, calls=("core::option::Option::Some",))
    fr = [(i, rv, s) for i, j, pl, rv, s in K.aggregates(r, "selium_protocol::frame::MessagePayload")]
    ctx.check(len(fr) == 1 and any(op_local(o) in hv or flow.root_local(r, o) in hv for o in fr[0][1]["ops"][:1]), "C04.D2.header", "request:frame-without-header",
              "the request frame carries that header map", (fr or [(0, 0, {"span": r.span})])[0][2]["span"])


def d3(ctx, F):
    sp = spawned_bodies(F, F.body(RQ + "poll_replies"))
    if not ctx.check(len(sp) == 1, "C04.D3.match-by-id", "poll_replies:no-task", "poll_replies spawns exactly one reply-reader task", F.body(RQ + "poll_replies").span):
        return
    ctx.touch(sp[0])
    p = F.inlined(sp[0])
    snd = [c for c in p.calls() if strip_generics(c.callee) == "tokio::sync::oneshot::Sender::send"]
    rem = [c for c in p.calls() if strip_generics(c.callee) == "std::collections::hash::map::HashMap::remove" and "oneshot::Sender" in c.full]
    get = [c for c in p.calls() if strip_generics(c.callee) == "std::collections::hash::map::HashMap::get" and "String" in c.full]
    if not ctx.check(len(snd) == 1 and len(rem) == 1 and len(get) == 1, "C04.D3.match-by-id", "poll_replies:shape",
                     "the reply task does one header lookup, one pending-map removal and one hand-over per reply", p.span):
        return
    key = flow.root(p, get[0].args[1])
    ctx.check(key[0] == "const" and flow.const_of(key[1]) == HDR, "C04.D3.match-by-id", "poll_replies:wrong-header", "the id is read from the `req_id` header", get[0].span)
    gv = flow.derived(p, {get[0].dest["l"]}, calls="all")
    ctx.check(op_local(rem[0].args[1]) in gv, "C04.D3.match-by-id", "poll_replies:remove-other-key", "the pending entry removed is the one keyed by the parsed header value", rem[0].span)
    rv_ = flow.derived(p, {rem[0].dest["l"]}, calls=())
    ctx.check(op_local(snd[0].args[0]) in rv_, "C04.D3.match-by-id", "poll_replies:send-other", "the reply is handed to the sender that was removed under that id", snd[0].span)
    # message comes from the same frame as the headers
    msg = flow.root(p, snd[0].args[1])
    hdr_base = flow.root(p, get[0].args[0], through_calls=flow.ADAPTERS)
    def base_local(r):
        if r[0] == "rv" and "pl" in r[1]:
            return r[1]["pl"]["l"]
        if r[0] == "rv" and r[1]["k"] == "use":
            return r[1]["op"]["pl"]["l"]
        return r[1] if r[0] in ("multi", "local") else None
    mb = base_local(msg)
    payloads = {pl["l"] for i, j, pl, rv, s in p.assigns() if rv["k"] == "use" and rv["op"].get("k") in ("move", "copy") and
                any(isinstance(e, dict) and e.get("vn") == "Message" for e in rv["op"]["pl"]["p"])}
    pv = flow.derived(p, payloads, calls=("core::option::Option::as_ref",))
    # the payload may have been moved into a helper's parameter: same value, same type
    ptys = {p.local_ty(l) for l in payloads}
    payloads = payloads | {l for l in flow.derived(p, payloads, calls=()) if p.local_ty(l) in ptys}
    ctx.check(mb in payloads and op_local(get[0].args[0]) in pv, "C04.D3.same-frame", "poll_replies:message-other-frame",
              "the message handed over and the header consulted belong to the same reply frame", snd[0].span)
    # a remove happens for every hand-over: `get` without remove would let a late reply reach a later request
    ctx.check(strip_generics(rem[0].callee).endswith("remove"), "C04.D3.consumed", "poll_replies:not-removed", "the pending entry is removed (a late duplicate finds nothing)", rem[0].span)


def pending_map_discipline(ctx, F, prefix="C04.D3"):
    """the shared pending-request table is only ever touched one entry at a time: insert (a new request) and remove (its reply, or its own
    failure). A bulk operation — clear/drain/retain, replacing the map — drops the reply senders of requests issued by *other* clones
    (e.g. ones that have already recovered onto a new stream), whose replies then arrive to nobody."""
    allowed = {"new", "default", "with_capacity", "insert", "remove", "get", "contains_key", "len", "is_empty"}
    n = 0
    for p_, b in sorted(F.bodies.items()):
        if b.crate != "selium":
            continue
        for c in b.calls():
            if "HashMap" in c.callee and "oneshot::Sender<bytes::bytes::Bytes>" in (c.full or "") and strip_generics(c.callee).startswith("std::collections::hash::map::HashMap::"):
                n += 1
                ctx.touch(b)
                okc = c.name() in allowed
                if c.name() == "retain" and len(c.args) > 1:
                    # purging entries whose receiver is gone (`retain(|_, tx| !tx.is_closed())`) discards nothing anyone waits for
                    rr = flow.root(b, c.args[1], through_calls=())
                    cb = F.bodies.get(rr[1].get("closure")) if rr[0] == "rv" and rr[1]["k"] == "agg" else None
                    okc = cb is not None and {x.name() for x in cb.calls()} == {"is_closed"}
                ctx.check(okc, prefix + ".pending-map", "pending-map:%s:%s" % (c.name(), p_.split("selium::")[-1][:80]),
                          "the pending-request table is touched one entry at a time (found HashMap::%s in %s)" % (c.name(), p_), c.span)
    ctx.check(n >= 2, prefix + ".pending-map", "pending-map:ops-missing", "the pending-request table has its insert and remove sites (%d operations found)" % n)


def d4(ctx, F):
    h = F.one_body(r"^selium::streams::request_reply::replier::Replier::<E, D, F, ReqItem, ResItem>::handle_request::\{closure#0\}$")
    ctx.touch(h)
    mp = F.adt("selium_protocol::frame::MessagePayload")
    hi = [f["name"] for f in mp["variants"][0]["fields"]].index("headers")
    req = h.local_by_debug("req_payload")
    aggs = K.aggregates(h, "selium_protocol::frame::MessagePayload")
    ctx.floor("C04.D4.echo.sites", len(aggs), 1)
    for i, j, pl, rv, s in aggs:
        o = rv["ops"][hi]
        r = flow.root(h, o)
        ok = False
        if o.get("k") in ("move", "copy") and o["pl"]["l"] in req and [e for e in o["pl"]["p"] if isinstance(e, int)] == [hi]:
            ok = True
        elif r[0] == "rv" and r[1]["k"] == "use" and r[1]["op"]["pl"]["l"] in req and [e for e in r[1]["op"]["pl"]["p"] if isinstance(e, int)] == [hi]:
            ok = True
        ctx.check(ok, "C04.D4.echo", "handle_request:headers-not-echoed", "the reply's headers are the request's headers, unmodified", s["span"])
    # nobody mutates the request's header map in between
    muts = [c for c in h.calls() if "HashMap" in c.callee and c.name() in ("insert", "remove", "clear", "retain", "entry", "get_mut")]
    ctx.check(not muts, "C04.D4.echo", "handle_request:headers-mutated", "handle_request does not modify the header map")


def d5(ctx, F):
    r = request_body(ctx, F)
    aw = flow.awaits(r)
    to = [c for c in r.calls() if strip_generics(c.callee) == "tokio::time::timeout::timeout"]
    if not ctx.check(len(to) == 1, "C04.D5.timeout", "request:no-timeout", "request() wraps the wait for the reply in tokio::time::timeout", r.span):
        return
    # rx = second element of the queue_request result
    rxs = {pl["l"] for i, j, pl, rv, s in r.assigns() if r.local_ty(pl["l"]).startswith("tokio::sync::oneshot::Receiver<")}
    rxv = {l for l in flow.derived(r, rxs, calls=()) if "oneshot::Receiver<" in r.local_ty(l)}
    users = [c for c in r.calls() if any(op_local(a) in rxv for a in c.args)]
    ctx.check(bool(rxs) and users == [to[0]], "C04.D5.timeout", "request:rx-awaited-elsewhere",
              "the one-shot receiver is consumed only by timeout(..) (users: %s)" % [c.name() for c in users], to[0].span)
    d = flow.root(r, to[0].args[0])
    rq = F.adt(RQ + "Requestor")
    ti = [f["name"] for f in rq["variants"][0]["fields"]].index("request_timeout")
    okd = d[0] == "rv" and d[1]["k"] == "use" and [e for e in d[1]["op"]["pl"]["p"] if isinstance(e, int)][-1:] == [ti]
    ctx.check(okd, "C04.D5.timeout", "request:timeout-not-configured-value", "the duration is self.request_timeout", to[0].span)
    ta = [a for a in aw if a.source is to[0]]
    ctx.check(len(ta) == 1, "C04.D5.timeout", "request:timeout-not-awaited", "the timeout future is awaited", to[0].span)
    # the wait for the reply holds no lock: a guard of the shared writer / pending map kept across it would serialise the clones' requests
    # outside their own timeouts
    if len(ta) == 1 and ta[0].yield_bb is not None:
        held = []
        for l in r.locals:
            if l["ty"].startswith(("tokio::sync::mutex::MutexGuard<", "tokio::sync::mutex::OwnedMutexGuard<", "std::sync::poison::mutex::MutexGuard<", "std::sync::MutexGuard<",
                                   "tokio::sync::rwlock::", "tokio::sync::mutex::MappedMutexGuard<")):
                if flow.maybe_init_blocks(r, l["id"])[1][ta[0].yield_bb]:
                    held.append(l.get("debug") or l["ty"][:40])
        ctx.check(not held, "C04.D5.no-lock-across-wait", "request:lock-held-across-wait",
                  "no mutex guard is alive while request() waits for the reply (held: %s)" % held, to[0].span)
    # Elapsed -> RequestTimeout
    me = [c for c in r.calls() if strip_generics(c.callee) == "core::result::Result::map_err" and "tokio::time::error::Elapsed" in c.full]
    ok = False
    for c in me:
        rr = flow.root(r, c.args[1])
        if rr[0] == "rv" and rr[1]["k"] == "agg" and "closure" in rr[1]:
            cb = F.bodies.get(rr[1]["closure"])
            if cb is not None:
                ctx.touch(cb)
                vs = [rv["variant"] for i, j, pl, rv, s in K.aggregates(cb, "selium_std::errors::SeliumError")]
                ok = vs == ["RequestTimeout"]
    if not ok:
        # explicit `match timeout(..).await { .., Err(_elapsed) => Err(RequestTimeout) }`
        for i, bl in enumerate(r.blocks):
            v = flow.switch_on_variant(r, i)
            if v and v[1] == "core::result::Result" and "tokio::time::error::Elapsed" in r.local_ty(v[0]["l"]) and "Err" in v[2]:
                arm = flow.reach_avoiding(r, [v[2]["Err"]], [i]) - flow.reach_avoiding(r, [v[2].get("Ok", v[3])], [i])
                vs = sorted({rv["variant"] for i2, j2, pl2, rv, s2 in K.aggregates(r, "selium_std::errors::SeliumError", arm)})
                if vs == ["RequestTimeout"]:
                    ok = True
    # .. and the reconnecting wrapper hands that error to the caller: RequestTimeout is not among the errors it retries on
    from . import c12 as _c12
    _c12.classification_only(ctx, F)
    ctx.check(ok, "C04.D5.timeout-error", "request:elapsed-not-timeout-error", "an elapsed timeout is reported as SeliumError::RequestTimeout", (me or to)[0].span)


def d5b(ctx, F):
    """(a) the configured timeout is stored as given: `with_request_timeout` writes Duration::from_millis(<its argument>) — a clamp that can
    only lengthen it (`max`) defeats the configured deadline; (b) the parts clones share — the id source and the pending table — are set
    once, when the requestor is built: re-creating either in one clone (e.g. on reconnect) makes clones draw colliding ids into one table"""
    for p_, b in sorted(F.bodies.items()):
        if b.crate == "selium" and b.name == "with_request_timeout":
            ctx.touch(b)
            bad = [c.name() for c in b.calls() if strip_generics(c.callee) in ("core::cmp::Ord::max", "core::cmp::max", "core::cmp::Ord::clamp")]
            mk = [c for c in b.calls() if strip_generics(c.callee).startswith("core::time::Duration::from_")]
            ctx.check(not bad and len(mk) == 1, "C04.D5.timeout-stored-as-given", "with_request_timeout:clamped", "with_request_timeout stores the duration it is given (no max()/clamp that could lengthen it: %s)" % (bad or "none"), b.span)
    rq = F.adt(RQ + "Requestor")
    fields = [x for x in rq["variants"][0]["fields"]]
    shared = [i for i, f in enumerate(fields) if f["ty"].startswith("alloc::sync::Arc<selium_protocol::request_id::RequestId>") or ("HashMap<" in f["ty"] and "oneshot::Sender" in f["ty"])]
    ctx.check(len(shared) == 2, "C04.D1.shared-parts-set-once", "requestor:shared-fields", "Requestor has its shared id source and pending table (%d found)" % len(shared))
    writes = []
    for p_, b in sorted(F.bodies.items()):
        if b.crate != "selium" or "request_reply::requestor" not in p_:
            continue
        for i, j, pl, rv, s in b.assigns():
            proj = [e for e in pl["p"] if isinstance(e, int)]
            if "*" in pl["p"] and proj[:1] and proj[0] in shared and len(proj) == 1 and "Requestor<" in b.local_ty(pl["l"]):
                writes.append((p_, s["span"]))
    ctx.check(not writes, "C04.D1.shared-parts-set-once", "requestor:shared-part-reassigned",
              "the id source and the pending table are never reassigned after construction (%s)" % ([w[0].rsplit("::", 2)[-2] + "::" + w[0].rsplit("::", 1)[-1] for w in writes] or "no writes"),
              (writes or [("", "")])[0][1])


def d6(ctx, F):
    """separate requestor streams: the server keys each requestor's replies by an id that is unique among live requestors and stamped
    on every request (the tag / id rules of C02.D1 and the reply-routing rules of C02.D2)"""
    from . import c02
    c02.d1(ctx, F)
    c02.d2(ctx, F)


def d7_decodes_this_reply(ctx, F):
    """the value returned for a request is decoded from the bytes of *its* reply: the buffer handed to the payload decoder is built in
    the decoding function from the bytes it was given (a buffer kept in the handle between requests still holds earlier replies, and
    none of the stock decoders consumes what it reads)"""
    n = 0
    for rx, who in ((r"^selium::streams::request_reply::requestor::Requestor::<E, D, ReqItem, ResItem>::(decode_response|request::\{closure#0\})$", "Requestor"),
                    (r"^selium::streams::request_reply::replier::Replier::<E, D, F, ReqItem, ResItem>::(decode_message|handle_request::\{closure#0\})$", "Replier")):
        for b0 in F.find_bodies(rx):
            b = F.inlined(b0, only=("selium::streams::",))          # (shared payload helpers may live next to the stream modules)
            for c in b.calls():
                if strip_generics(c.callee) != "selium_std::traits::codec::MessageDecoder::decode" or len(c.args) < 2:
                    continue
                n += 1
                ctx.touch(b0)
                r = flow.root(b, c.args[1], through_calls=())
                fresh = False
                if r[0] == "rv" and r[1]["k"] == "ref":
                    pl = r[1]["pl"]
                    base_ty = b.local_ty(pl["l"])
                    # a local buffer of this function (not a place inside *self / a captured handle)
                    fresh = not [e for e in pl["p"] if e != "*"] and "*" not in pl["p"] and not base_ty.startswith("&") and pl["l"] > b.nargs
                elif r[0] == "call":
                    fresh = True
                ctx.check(fresh, "C04.D3.decodes-this-reply", "decode-buffer-kept:%s:%s" % (who, b0.path.split("::{")[0].rsplit("::", 1)[-1]),
                          "%s decodes a payload out of a buffer built for that payload (not one kept in the handle across messages)" % who, c.span)
    ctx.floor("C04.D3.decodes-this-reply.sites", n, 2)


def run(ctx):
    F = ctx.facts("quick")
    d7_decodes_this_reply(ctx, F)
    d6(ctx, F)
    d1(ctx, F)
    d2(ctx, F)
    d3(ctx, F)
    pending_map_discipline(ctx, F)
    d4(ctx, F)
    d5(ctx, F)
    d5b(ctx, F)
