"""Shared PollAI set-up for the two topic routers (slots filled from the repository's own types)."""
from .. import pollai, panics
from ..absint import TOP

_cache = {}

SINK_ADT = {"pubsub": "selium_server::sink::fanout_many::FanoutMany", "reqrep": "selium_server::sink::router::Router"}


def server_bound(o):
    v = o.get("server")
    return isinstance(v, tuple) and len(v) > 2 and v[2] == "Some"


def config(F, which):
    body0 = F.impl_method("core::future::future::Future", "selium_server::topic::%s::Topic" % which, "poll")
    # helper functions the poll body is split into are looked through; the sink combinators (modelled as operations) stay calls
    keep = [p for p in F.bodies if "::sink::" in p or p.startswith("<selium_server::sink") or "::project" in p]
    body = F.inlined(body0, keep=keep, only=("selium_server::topic::", "selium_server::sink::"))
    adt = F.adt("selium_server::topic::%s::TopicProj" % which)
    names = [f["name"] for f in adt["variants"][0]["fields"]]
    if which == "pubsub":
        need = {"stream", "sink", "handle", "buffered_item"}
        cfg = pollai.Config(body, adt, {"sink"}, {"buffered_item": lambda o: True}, final_empty=("buffered_item",),
                            send_requires_empty={"sink": "buffered_item"})
        cfg.store_every_item = {"stream"}
    else:
        need = {"server", "stream", "sink", "handle", "buffered_req", "buffered_rep", "buffered_err"}
        cfg = pollai.Config(body, adt, {"sink", "server.0.0"},
                            {"buffered_req": server_bound, "buffered_rep": lambda o: True, "buffered_err": lambda o: True},
                            overwrite_ok=lambda slot, o: slot == "buffered_req" and not server_bound(o),
                            send_requires_empty={"sink": "buffered_rep", "server.0.0": "buffered_req"}, rebind_slot="server")
    from ..facts import AnchorMissing
    missing = need - set(names)
    if missing:
        raise AnchorMissing("router %s: projection fields %s not found (fields: %s)" % (which, sorted(missing), names))
    me = {}
    for m, op in (("poll_ready", "ready"), ("start_send", "send"), ("poll_flush", "flush"), ("poll_close", "close")):
        b = F.impl_method("futures_sink::Sink", SINK_ADT[which], m)
        me[op] = not panics.must_return_ok(F, b)
    cfg.sink_may_err = {"sink": me}
    init = {}
    for f in adt["variants"][0]["fields"]:
        k = pollai.classify_field(f["ty"])
        init[f["name"]] = {"sset": ("sset", False, "n"), "sinkset": ("sinkset", False, False, "n"), "chan": ("chan", True, "n"),
                           "slot": pollai.NONE, "counter": ("counter",)}.get(k, TOP)
    return cfg, init, me


def explore(F, which):
    key = (id(F), which)
    if key in _cache:
        return _cache[key]
    cfg, init, me = config(F, which)
    ex = pollai.Explorer(cfg, F, init).explore()
    sd = pollai.Explorer(cfg, F, init, shutdown=True).explore(seeds=[dict(k) for k in ex.persistent])
    _cache[key] = (ex, sd, cfg, me)
    return _cache[key]


def report(ctx, F, which, rule_prefix, select, what_floor=True):
    """runs (or reuses) the exploration of one router and reports the selected findings under `rule_prefix`.
    select(finding) -> bool. Returns the explorer for further evidence."""
    ex, sd, cfg, me = explore(F, which)
    ctx.touch(cfg.body)
    allf = dict(ex.findings)
    allf.update(sd.findings)
    n = 0
    for k, f in sorted(allf.items()):
        if f.kind == "unmodelled":
            ctx.fail(rule_prefix + ".model", "%s:%s" % (which, f.key), "PollAI cannot model an operation on a tracked router object (fail closed): %s" % f.what, f.span)
            continue
        if not select(f):
            continue
        n += 1
        ctx.fail("%s.%s" % (rule_prefix, f.kind), "%s:%s" % (which, f.key), "%s router: %s" % (which, f.what), f.span, detail=f.witness)
    st = ctx.extra.setdefault("pollai", {})
    st[which] = {"persistent_states": len(ex.persistent), "block_state_nodes": len(ex.it.nodes), "transitions": sum(len(v) for v in ex.it.edges.values()),
                 "returns": ex.returns, "shutdown_states": len(sd.persistent), "shutdown_nodes": len(sd.it.nodes), "shutdown_returns": sd.returns,
                 "sink_may_return_err": me, "tracked_operations": {"%s.%s" % k: v for k, v in sorted(ex.h.ops_seen.items())},
                 "routing_facts": sorted("%s %s <- %s" % r for r in ex.h.routing), "sample_states": [d for d, _ in list(ex.entries.values())[:8]]}
    return ex, sd, cfg
