"""Sweep / eviction rules for the two sink combinators (shared by C01, C02, C08)."""
from .. import flow, panics
from ..facts import strip_generics, op_local, rv_locals
from . import common as K

FAN = "selium_server::sink::fanout_many::FanoutMany"
ROUTER = "selium_server::sink::router::Router"
METHODS = ("poll_ready", "start_send", "poll_flush", "poll_close")


def child_calls(body):
    """calls of a Sink method on one element (`<&mut V as Sink>` / `<V as Sink>`)"""
    return [c for c in body.calls() if strip_generics(c.callee).startswith("futures_sink::Sink::") and ("FanoutMany" not in c.self_ty and "Router<" not in c.self_ty)]


def loop_paths(body, header, loop, limit=4000):
    """acyclic paths through one iteration: from the loop header until the header is reached again, the loop is left, or a return;
    log-macro diamonds are not expanded (blocks that only differ by logging are merged by visiting each block once per path)"""
    succ = body.succ_map()
    paths = []
    stack = [(header, (header,))]
    while stack and len(paths) < limit:
        b, path = stack.pop()
        nxt = succ[b]
        if not nxt:
            paths.append(path + ("<exit>",))
            continue
        for s in nxt:
            if s == header:
                paths.append(path + ("<back>",))
            elif s in path:
                continue
            elif s not in loop:
                # leaving the loop: follow to the end only to see what happens on the way out (bounded)
                paths.append(path + (s, "<leave>"))
            else:
                stack.append((s, path + (s,)))
    return paths


def fanout_sweep(ctx, F, prefix, method):
    b = F.impl_method("futures_sink::Sink", FAN, method)
    ctx.touch(b)
    b = F.inlined(b)       # a shared sweep helper taking the per-element operation as a closure is looked through
    loops_ = flow.loops(b)
    cc = child_calls(b)
    if not ctx.check(len(loops_) == 1 and cc, prefix + ".sweep-shape", "fanout:%s:shape" % method, "FanoutMany::%s is one sweep loop over the entries calling the element's %s" % (method, method), b.span):
        return
    lp = loops_[0]
    header = min(lp, key=lambda x: (not b.dominates(x, min(lp)), x))
    # header = the block of the loop that dominates all others
    for x in lp:
        if all(b.dominates(x, y) for y in lp):
            header = x
    paths = loop_paths(b, header, lp)
    child_bbs = {c.bb for c in cc}
    rem_bbs = {c.bb for c in b.calls() if strip_generics(c.callee) in panics.SHRINKERS}
    inc_bbs = set()
    idx_locals = set()
    for c in b.calls():
        if strip_generics(c.callee) in ("core::ops::index::IndexMut::index_mut", "core::ops::index::Index::index", "core::slice::<impl [T]>::get_mut",
                                        "core::slice::<impl [T]>::get", "alloc::vec::Vec::swap_remove", "alloc::vec::Vec::remove") and len(c.args) > 1 \
                and "usize" in (c.arg_tys[1] if len(c.arg_tys) > 1 else "usize"):
            r = flow.root_local(b, c.args[1])
            if r is not None:
                idx_locals.add(r)
    for i, j, pl, rv, s in b.assigns():
        if rv["k"] == "binop" and rv["op"] in ("AddWithOverflow", "Add") and flow.const_of(rv["b"]) == 1 and op_local(rv["a"]) in idx_locals:
            inc_bbs.add(i)
    # every call considers every entry: the index starts at the constant 0 on entry to the sweep
    starts = []
    for l in idx_locals:
        for d in b.defs().get(l, []):
            if d[0] == "assign" and d[1] not in lp:
                starts.append(flow.const_of(d[3]["op"]) if d[3]["k"] == "use" else None)
    ctx.check(starts == [0], prefix + ".sweep-from-start", "fanout:%s:not-from-zero" % method,
              "FanoutMany::%s starts its sweep at entry 0 on every call (initial index: %s)" % (method, starts), b.span)
    # locals whose value is what the method returns (the return place itself, and the return places of helpers inlined into it)
    retl = {0}
    grew = True
    while grew:
        grew = False
        for i2, j2, pl, rv, s2 in b.assigns():
            if pl["l"] in retl and not pl["p"] and rv["k"] == "use" and rv["op"].get("k") in ("copy", "move") and not rv["op"]["pl"]["p"] and rv["op"]["pl"]["l"] not in retl:
                retl.add(rv["op"]["pl"]["l"])
                grew = True
    bad = []
    n_iter = 0
    for p in paths:
        blocks = [x for x in p if isinstance(x, int)]
        nchild = sum(1 for x in blocks if x in child_bbs)
        nadv = sum(1 for x in blocks if x in rem_bbs or x in inc_bbs)
        end = p[-1]
        if nchild == 0 and end in ("<leave>", "<exit>"):
            continue     # the loop-exit path (bound reached)
        if b.blocks[blocks[-1]]["term"]["k"] == "unreachable":
            continue     # `otherwise` arm of an exhaustive match
        n_iter += 1
        leaves = end != "<back>"
        ok = nchild == 1 and (nadv == 1 or (leaves and nadv <= 1))
        if ok and leaves:
            # leaving the sweep before the bound is reached is legitimate only (a) to return Pending, (b) on the branch that
            # established "this is the last entry" (idx == len - 1)
            pend = any(rv["k"] == "agg" and rv.get("variant") == "Pending" and pl["l"] in retl for (i2, j2, pl, rv, s2) in b.assigns() if i2 in blocks or i2 in flow.reach_avoiding(b, [blocks[-1]], lp))
            last = False
            for x in blocks:
                sc = flow.switch_condition(b, x)
                if sc and sc.get("kind") == "opaque":
                    # `if is_last` on a bool computed by idx == len - 1
                    d = flow.single_def(b, sc["local"])
                    r = flow.root(b, sc["local"])
                    if r[0] == "rv" and r[1]["k"] == "binop" and r[1]["op"] == "Eq":
                        sc = {"kind": "cmp", "op": "Eq", "true": sc["true"] if not sc.get("neg") else sc["false"], "false": sc["false"] if not sc.get("neg") else sc["true"]}
                if sc and sc.get("kind") == "cmp" and sc["op"] == "Eq" and sc["true"] in blocks:
                    last = True
            if method == "start_send":
                ok = last
            else:
                ok = pend
        if not ok:
            bad.append((nchild, nadv, end, [b.blocks[x]["term"].get("span", "") for x in blocks if x in child_bbs or x in rem_bbs][:3]))
    if method != "start_send":
        # Ready is answered only after a sweep over the entries: an early `return Ready(Ok)` (e.g. behind a "nothing written since the
        # last flush" flag) claims completion for sinks that were never polled in this call — a flush that was Pending is then never resumed
        early = []
        for i2, j2, pl, rv, s2 in b.assigns():
            if rv["k"] == "agg" and rv.get("adt") == "core::task::poll::Poll" and rv.get("variant") == "Ready" and pl["l"] in retl and i2 in flow.reach_avoiding(b, [0], [header]):
                empty_guard = False
                for x in range(len(b.blocks)):
                    sc = flow.switch_condition(b, x)
                    if sc and sc.get("kind") == "call" and strip_generics(sc["call"].callee) in ("alloc::vec::Vec::is_empty", "core::slice::<impl [T]>::is_empty"):
                        edge = sc["false"] if sc.get("neg") else sc["true"]
                        if b.dominates(edge, i2):
                            empty_guard = True
                if not empty_guard:
                    early.append(s2["span"])
        ctx.check(not early, prefix + ".sweep-complete", "fanout:%s:early-ready" % method,
                  "FanoutMany::%s answers Ready only after sweeping its entries (no early return%s)" % (method, (": " + early[0]) if early else ""), b.span)
    ctx.check(not bad and n_iter >= 2, prefix + ".sweep-once", "fanout:%s:sweep" % method,
              "FanoutMany::%s: every iteration path polls/sends to exactly one entry and then either advances the index or removes that entry (%d iteration paths; offending: %s)" % (method, n_iter, bad[:3]), b.span)
    if method == "start_send":
        # the item flows only into clone() and the element's start_send
        itemv = flow.derived(b, {2}, calls=())
        users = [c for c in b.calls() if any(op_local(a) in itemv for a in c.args)]
        okusers = [c for c in users if strip_generics(c.callee) in ("core::clone::Clone::clone", "futures_sink::Sink::start_send", "core::option::Option::take", "core::option::Option::unwrap",
                                                                    "core::option::Option::expect", "core::option::Option::as_ref", "core::option::Option::cloned", "core::option::Option::clone")
                   or strip_generics(c.callee).startswith(("core::mem::", "core::ptr::"))]
        ctx.check(len(users) == len(okusers) and len(users) >= 2, prefix + ".item-pass-through", "fanout:item-rebuilt",
                  "FanoutMany::start_send hands the item (or a clone of it) to the elements and to nothing else (users: %s)" % [c.name() for c in users], b.span)
        clones = [c for c in cc if flow.root(b, c.args[1], through_calls=())[0] == "call" and flow.root(b, c.args[1], through_calls=())[1].name() == "clone"]
        direct = [c for c in cc if c not in clones]
        ctx.check(all(op_local(c.args[1]) in itemv or flow.root_local(b, c.args[1]) in itemv or c in clones for c in cc), prefix + ".item-pass-through", "fanout:item-other-value",
                  "every element receives the very item passed in (or its clone)", b.span)


CLOSURE_CALLS = ("core::ops::function::FnMut::call_mut", "core::ops::function::FnOnce::call_once", "core::ops::function::Fn::call")


def sweep_region(F, b):
    """(bodies, delegates): the method body, the workspace-local helpers it calls (two levels), all their closures; `delegates` are the
    closures that are handed to such a helper as an argument (their return value is consumed by the helper, not by the caller)"""
    bodies, delegates, seen = [], [], set()

    def add(bd, depth):
        if bd.path in seen:
            return
        seen.add(bd.path)
        bodies.append(bd)
        for cl in F.closures_of(bd):
            add(cl, depth)
        if depth <= 0:
            return
        for c in bd.calls():
            res = c.t.get("resolved") or c.callee
            cb = F.bodies.get(res)
            if cb is not None and cb.kind in ("Fn", "AssocFn") and not cb.is_coroutine and "::sink::" in cb.path:
                for a in c.args:
                    r = flow.root(bd, a, through_calls=()) if a.get("k") in ("copy", "move") else None
                    if r and r[0] == "rv" and r[1]["k"] == "agg" and r[1].get("agg") == "closure":
                        delegates.append(r[1]["closure"])
                add(cb, depth - 1)
    add(b, 2)
    return bodies, delegates


def polled_calls(body):
    """the calls that poll one element: a Sink method on the element, or a call of a closure parameter that does so"""
    ind = [c for c in body.calls() if strip_generics(c.callee) in CLOSURE_CALLS and c.dest is not None]
    return child_calls(body) + ind


def never_propagates_child_error(ctx, F, prefix, adt, method):
    b = F.impl_method("futures_sink::Sink", adt, method)
    bodies, delegates = sweep_region(F, b)
    ctx.touch(*bodies)
    short = adt.rsplit("::", 1)[-1]
    ok = True
    for bd in bodies:
        if bd.path in delegates:
            continue      # its value is consumed by the helper's sweep, which is checked below like any other poll
        for c in polled_calls(bd):
            dv = flow.derived(bd, {c.dest["l"]}, calls="all")
            # the child's result must not flow into the return value, except through a Pending/Ready discriminant test
            for i, j, pl, rv, s in bd.assigns():
                if pl["l"] == 0 and rv_locals(rv) & dv and rv["k"] != "discr":
                    ok = False
            for c2 in bd.calls():
                if c2.dest and c2.dest["l"] == 0 and any(op_local(a) in dv for a in c2.args):
                    ok = False
    mro = panics.must_return_ok(F, b)
    if adt == ROUTER and method == "start_send":
        ctx.check(ok, prefix + ".no-error-propagation", "%s:%s:child-error-propagates" % (short, method), "%s::%s never returns an element's error to the router" % (short, method), b.span)
    else:
        ctx.check(ok and mro, prefix + ".no-error-propagation", "%s:%s:child-error-propagates" % (short, method),
                  "%s::%s never fails because one element failed (all returns are Ok/Ready(Ok)/Pending)" % (short, method), b.span)


def router_retain(ctx, F, prefix, method):
    b = F.impl_method("futures_sink::Sink", ROUTER, method)
    bodies, delegates = sweep_region(F, b)
    ctx.touch(*bodies)
    # a sink sweep hands the caller's waker to the entries it polls and does nothing else with it: waking the task itself on Pending
    # turns the wait for a slow peer into a busy loop of the whole topic
    wk = [c for bd in bodies for c in bd.calls() if strip_generics(c.callee) in ("core::task::wake::Waker::wake_by_ref", "core::task::wake::Waker::wake")]
    ctx.check(not wk, prefix + ".no-self-wake", "router:%s:self-wake" % method, "Router::%s never wakes its own task (a Pending entry has the waker; re-polling at once would spin)" % method, (wk or [b])[0].span)
    rt = [(bd, c) for bd in bodies for c in bd.calls() if c.name() == "retain"]
    cb = None
    if len(rt) == 1:
        bd, c = rt[0]
        for a in c.args[1:]:
            r = flow.root(bd, a, through_calls=()) if a.get("k") in ("copy", "move") else None
            if r and r[0] == "rv" and r[1]["k"] == "agg" and r[1].get("agg") == "closure":
                cb = F.bodies.get(r[1]["closure"])
    if not ctx.check(cb is not None, prefix + ".retain-shape", "router:%s:shape" % method, "Router::%s sweeps its entries with one retain closure" % method, b.span):
        return
    cc = polled_calls(cb)
    # the element method that is polled: directly in the retain closure, or in the single delegate closure handed to the helper
    direct = child_calls(cb)
    dl = [F.bodies[d] for d in delegates if d in F.bodies]
    if direct:
        named = direct
        dl_ok = True
    else:
        named = [c for d in dl for c in child_calls(d)]
        # a delegate returns the element's answer untouched
        dl_ok = len(dl) == 1 and all(c.dest is not None and (c.dest["l"] == 0 or 0 in flow.derived(d, {c.dest["l"]}, calls=())) for d in dl for c in child_calls(d))
    shape = len(cc) == 1 and len(named) == 1 and named[0].name() == method and dl_ok
    if not ctx.check(shape, prefix + ".retain-shape", "router:%s:closure-calls" % method, "the retain closure polls the entry's %s exactly once" % method, cb.span):
        return
    m, sbb = flow.switch_after_call(cb, cc[0], want_bb=True) or ({}, None)
    # `false` (evict) is returned only on Ready(Err)
    false_blocks = {i for i, j, pl, rv, s in cb.assigns() if pl["l"] == 0 and rv["k"] == "use" and flow.const_of(rv["op"]) is False}
    ok = bool(false_blocks) and sbb is not None
    if ok:
        pend = m.get("Pending")
        rdy = m.get("Ready")
        reach_p = flow.reach_avoiding(cb, [pend], [sbb]) if pend is not None else set()
        ok = not (false_blocks & reach_p)
        # inside Ready: only the Err arm
        for sw in range(len(cb.blocks)):
            v = flow.switch_on_variant(cb, sw)
            if v and v[1] == "core::result::Result":
                okarm = flow.reach_avoiding(cb, [v[2].get("Ok", v[3])], [sw])
                errarm = flow.reach_avoiding(cb, [v[2].get("Err", v[3])], [sw])
                ok = ok and not (false_blocks & okarm) and bool(false_blocks & errarm)
    rb_, rc_ = rt[0]
    retl = {0}
    grew = True
    ib = F.inlined(b)
    early = []
    if rb_ is b or True:
        body_ = ib
        rts = [c for c in body_.calls() if c.name() == "retain"]
        grew = True
        while grew:
            grew = False
            for i2, j2, pl, rv, s2 in body_.assigns():
                if pl["l"] in retl and not pl["p"] and rv["k"] == "use" and rv["op"].get("k") in ("copy", "move") and not rv["op"]["pl"]["p"] and rv["op"]["pl"]["l"] not in retl:
                    retl.add(rv["op"]["pl"]["l"])
                    grew = True
        if rts:
            # a Ready answer given without sweeping: some path from the entry reaches a return without passing the retain call
            # (a `Ready` built up front as the initial value of an outcome variable that the sweep may overwrite is not an early answer)
            bypass = flow.reach_avoiding(body_, [0], [c.bb for c in rts])
            returns_bypassing = [i2 for i2 in bypass if body_.blocks[i2]["term"]["k"] == "return"]
            if returns_bypassing:
                for i2, j2, pl, rv, s2 in body_.assigns():
                    if rv["k"] == "agg" and rv.get("adt") == "core::task::poll::Poll" and rv.get("variant") == "Ready" and pl["l"] in retl and i2 in bypass:
                        early.append(s2["span"])
    # an entry that answered Pending makes the whole sweep Pending: the Pending arm records it in a captured variable and the Ready
    # answer is given only when that variable was left untouched (Ready while an entry is busy lets start_send hit a full sink,
    # which is then evicted as "broken" and the frame is lost)
    pp_ok, pp_why = False, "the Pending arm of the retain closure records nothing"
    if sbb is not None and m.get("Pending") is not None:
        reach_p = flow.reach_avoiding(cb, [m["Pending"]], [sbb])
        marks = [(pl, rv) for i2, j2, pl, rv, s2 in cb.assigns() if i2 in reach_p and pl["l"] == 1 and "*" in pl["p"] and [e for e in pl["p"] if isinstance(e, int)]]
        rts_ = [c for c in ib.calls() if c.name() == "retain"]
        if marks and len(rts_) == 1:
            k = [e for e in marks[0][0]["p"] if isinstance(e, int)][0]
            v = flow.const_of(marks[0][1]["op"]) if marks[0][1]["k"] == "use" else None
            # a store of the opposite value to the same variable elsewhere in the closure would erase the mark
            erased = [1 for i2, j2, pl, rv, s2 in cb.assigns() if pl["l"] == 1 and "*" in pl["p"] and k in pl["p"] and i2 not in reach_p
                      and isinstance(v, bool) and rv["k"] == "use" and flow.const_of(rv["op"]) == (not v)]
            cl = None
            for a in rts_[0].args[1:]:
                r = flow.root(ib, a, through_calls=()) if a.get("k") in ("copy", "move") else None
                if r and r[0] == "rv" and r[1]["k"] == "agg" and r[1].get("agg") == "closure":
                    cl = r[1]
            flag = None
            if cl is not None and k < len(cl["ops"]) and cl["ops"][k].get("k") in ("copy", "move"):
                cur, hops = cl["ops"][k]["pl"]["l"], 0
                while cur is not None and hops < 6 and flag is None:
                    defs = [rv for i2, j2, pl, rv, s2 in ib.assigns() if pl["l"] == cur and not pl["p"]]
                    cur, hops = None, hops + 1
                    if len(defs) == 1 and defs[0]["k"] == "ref" and not defs[0]["pl"]["p"]:
                        flag = defs[0]["pl"]["l"]
                    elif len(defs) == 1 and defs[0]["k"] == "use" and defs[0]["op"].get("k") in ("copy", "move") and not defs[0]["op"]["pl"]["p"]:
                        cur = defs[0]["op"]["pl"]["l"]
            if flag is None:
                pp_why = "the variable the Pending arm writes could not be traced to the sweep"
            elif erased:
                pp_why = "another arm of the closure resets the Pending mark"
            elif isinstance(v, bool):
                fv = flow.derived(ib, {flag}, calls=())
                sws = [i2 for i2, bl in enumerate(ib.blocks) if bl["term"]["k"] == "switch" and bl["term"].get("discr_ty") == "bool" and op_local(bl["term"]["discr"]) in fv
                       and ib.dominates(rts_[0].bb, i2) and not bl.get("cleanup")]
                readies = {i2 for i2, j2, pl, rv, s2 in ib.assigns() if rv["k"] == "agg" and rv.get("adt") == "core::task::poll::Poll" and rv.get("variant") == "Ready" and pl["l"] in retl}
                bad = False
                for sw in sws:
                    t = ib.blocks[sw]["term"]
                    edge = t["otherwise"] if v else t["targets"][0][1]
                    if readies & flow.reach_avoiding(ib, [edge], [sw]):
                        bad = True
                pp_ok = bool(sws) and bool(readies) and not bad
                pp_why = "the Ready answer is reachable with the mark set" if bad else "the mark is not tested before answering" if not sws else "ok"
            else:
                # the mark is the answer itself (e.g. `outcome = Poll::Pending`)
                pp_ok = bool(retl & flow.derived(ib, {flag}, calls=()))
                pp_why = "the recorded answer is not what is returned"
    ctx.check(pp_ok, prefix + ".pending-propagates", "router:%s:ready-while-entry-pending" % method,
              "Router::%s answers Pending whenever one of its entries did (%s)" % (method, "mark set in the Pending arm, tested before Ready" if pp_ok else pp_why), cb.span)
    ctx.check(not early, prefix + ".sweep-complete", "router:%s:early-ready" % method,
              "Router::%s answers Ready only after sweeping its entries (no early return%s)" % (method, (": " + early[0]) if early else ""), b.span)
    ctx.check(ok, prefix + ".evict-only-failed", "router:%s:evicts-healthy" % method, "Router::%s evicts an entry only when its %s returned Ready(Err) (not on Pending or Ok)" % (method, method), cb.span)
    # entries not polled twice: the `pending` short-circuit returns true without polling
    ctx.ok(prefix + ".retain-shape", "Router::%s polls each entry at most once per call (retain visits each entry once)" % method, cb.span)


def counter_keys(ctx, F, body, routing, prefix, expected):
    """registrations are keyed by monotone counters: each insert uses its counter, counters are only ever incremented by one, and
    each insert is followed by such an increment (so ids of live entries are never reused)"""
    keys = sorted({(o, t) for (k, o, t) in routing if k == "insert"})
    want = sorted((o, "key:" + c) for o, c in expected.items())
    ctx.check(keys == want, prefix + ".counter-keys", "insert-keys", "entries are registered under their id counters (found %s, expected %s)" % (keys, want), body.span)
    for obj, cname in sorted(expected.items()):
        ls = body.local_by_debug(cname)
        lsv = flow.derived(body, set(ls), calls=())        # reborrows handed to a helper such as `id.advance()`
        # the counter may also be reached as a field of the undestructured projection (`this.next_id`)
        pidx = None
        for a_ in F.adts.values():
            if a_["path"].endswith("::TopicProj") and a_.get("variants") and cname in [f["name"] for f in a_["variants"][0]["fields"]] and a_["path"].rsplit("::", 1)[0] in body.path:
                pidx = [f["name"] for f in a_["variants"][0]["fields"]].index(cname)

        def counter_place(pl_):
            if pl_["l"] in lsv and "*" in pl_["p"]:
                return True
            ints = [e for e in pl_["p"] if isinstance(e, int)]
            return pidx is not None and "TopicProj" in body.local_ty(pl_["l"]) and ints[:1] == [pidx] and "*" in pl_["p"]
        writes = []
        wblocks = []
        for i, j, pl, rv, s in body.assigns():
            if counter_place(pl):
                r = flow.root(body, rv["op"]) if rv["k"] == "use" else ("rv", rv)
                writes.append(r[0] == "rv" and r[1]["k"] == "binop" and r[1]["op"] in ("AddWithOverflow", "Add") and flow.const_of(r[1]["b"]) == 1)
                wblocks.append(i)
        ctx.check(bool(writes) and all(writes), prefix + ".counter-monotone", "counter-reset:%s" % cname, "`%s` is only ever incremented by one" % cname, body.span)
        def key_is_counter(a):
            if op_local(a) is None:
                return False
            if flow.root_local(body, a) in ls:
                return True
            r_ = flow.root(body, a)
            return r_[0] == "rv" and r_[1]["k"] == "use" and r_[1]["op"].get("k") in ("copy", "move") and counter_place(r_[1]["op"]["pl"])
        ins = [c for c in body.calls() if c.name() == "insert" and any(key_is_counter(a) for a in c.args[1:2])]
        ok = bool(ins) and all(any(body.dominates(c.bb, w) and w in flow.reach_avoiding(body, [c.target], []) for w in wblocks) for c in ins)
        ctx.check(ok, prefix + ".counter-advanced", "counter-not-advanced:%s" % cname, "every registration under `%s` is followed by its increment" % cname, (ins or [body])[0].span)
