"""Loader and indexes for the driver's JSON facts."""
import glob
import json
import os
import re


class AnchorMissing(Exception):
    """A function / type a rule is anchored on is not in the analysed build (fail closed)."""


def op_local(op):
    """local id if operand is copy/move of a place (any projection), else None"""
    if op and op.get("k") in ("copy", "move"):
        return op["pl"]["l"]
    return None


def op_is_plain_local(op):
    return op and op.get("k") in ("copy", "move") and not op["pl"]["p"]


def place_str(pl):
    s = "_%d" % pl["l"]
    for p in pl["p"]:
        if p == "*":
            s = "(*%s)" % s
        elif isinstance(p, int):
            s += ".%d" % p
        elif isinstance(p, dict) and "v" in p:
            s += " as %s" % p.get("vn", p["v"])
        elif isinstance(p, dict) and "idx" in p:
            s += "[_%d]" % p["idx"]
        else:
            s += "[..]"
    return s


class Call:
    __slots__ = ("body", "bb", "t")

    def __init__(self, body, bb, t):
        self.body, self.bb, self.t = body, bb, t

    @property
    def callee(self):
        return self.t.get("callee", "")

    @property
    def resolved(self):
        return self.t.get("resolved") or self.t.get("callee", "")

    @property
    def full(self):
        return self.t.get("callee_full", "")

    @property
    def args(self):
        return self.t.get("args", [])

    @property
    def arg_tys(self):
        return self.t.get("arg_tys", [])

    @property
    def dest(self):
        return self.t.get("dest")

    @property
    def target(self):
        return self.t.get("target")

    @property
    def span(self):
        return self.t.get("span", "")

    @property
    def macros(self):
        return self.t.get("macros", [])

    @property
    def self_ty(self):
        return self.t.get("self_ty") or self.t.get("impl_self") or ""

    @property
    def trait(self):
        return self.t.get("trait")

    def name(self):
        """last path segment of the declared callee"""
        c = self.callee
        return c.rsplit("::", 1)[-1]

    def is_(self, *names):
        """match declared or resolved callee against def-paths, ignoring generic args"""
        c, r = strip_generics(self.callee), strip_generics(self.resolved)
        return any(strip_generics(n) in (c, r) for n in names)

    def __repr__(self):
        return "Call(%s @bb%d %s)" % (self.callee, self.bb, self.span)


_GEN = re.compile(r"::<(?!impl )[^<>]*(?:<[^<>]*(?:<[^<>]*(?:<[^<>]*>[^<>]*)*>[^<>]*)*>[^<>]*)*>")


def strip_generics(path):
    """core::option::Option::<T>::is_some -> core::option::Option::is_some"""
    prev = None
    while prev != path:
        prev = path
        path = _GEN.sub("", path)
    return path


class Body:
    def __init__(self, raw, crate):
        self.raw = raw
        self.crate = crate
        self.path = raw["path"]
        self.dpath = raw["dpath"]
        self.kind = raw["kind"]
        self.span = raw["span"]
        self.blocks = raw["blocks"]
        self.locals = raw["locals"]
        self.nargs = raw["args"]
        self.name = raw.get("name")
        self.impl_trait = raw.get("impl_trait")
        self.impl_self = raw.get("impl_self")
        self.is_coroutine = raw.get("coroutine", False)
        self._succ = None
        self._pred = None
        self._dom = None
        self._calls = None
        self._defs = None

    # -- basic structure ------------------------------------------------------------
    def local_by_debug(self, name):
        r = [l["id"] for l in self.locals if name in l.get("debug", [])]
        return r

    def local_ty(self, lid):
        return self.locals[lid]["ty"]

    def debug_name(self, lid):
        d = self.locals[lid].get("debug")
        return d[0] if d else None

    def var_places(self, name):
        """places bound to a user variable name (incl. captured upvars / projections)"""
        return [v["pl"] for v in self.raw.get("var_debug", []) if v["name"] == name and "pl" in v]

    def term(self, bb):
        return self.blocks[bb]["term"]

    def succs(self, bb, unwind=False):
        t = self.blocks[bb]["term"]
        k = t["k"]
        out = []
        if k in ("goto", "drop", "assert", "yield"):
            out.append(t["target"])
        elif k == "call":
            if t.get("target") is not None:
                out.append(t["target"])
        elif k == "switch":
            out.extend(x[1] for x in t["targets"])
            out.append(t["otherwise"])
        if unwind and t.get("unwind") is not None:
            out.append(t["unwind"])
        if k == "yield" and unwind and t.get("drop") is not None:
            out.append(t["drop"])
        return out

    def succ_map(self):
        if self._succ is None:
            self._succ = [self.succs(i) for i in range(len(self.blocks))]
        return self._succ

    def pred_map(self):
        if self._pred is None:
            p = [[] for _ in self.blocks]
            for i, ss in enumerate(self.succ_map()):
                for s in ss:
                    p[s].append(i)
            self._pred = p
        return self._pred

    def reachable(self, start=0, avoid=()):
        seen = set()
        st = [start]
        avoid = set(avoid)
        while st:
            b = st.pop()
            if b in seen or b in avoid:
                continue
            seen.add(b)
            st.extend(self.succ_map()[b])
        return seen

    def is_cleanup(self, bb):
        return self.blocks[bb].get("cleanup", False)

    def calls(self):
        if self._calls is None:
            self._calls = [Call(self, i, b["term"]) for i, b in enumerate(self.blocks)
                           if b["term"]["k"] in ("call", "tailcall") and not b.get("cleanup")]
        return self._calls

    def calls_to(self, *names):
        return [c for c in self.calls() if c.is_(*names)]

    def calls_named(self, *lastseg):
        return [c for c in self.calls() if c.name() in lastseg]

    def returns(self):
        return [i for i, b in enumerate(self.blocks) if b["term"]["k"] == "return" and not b.get("cleanup")]

    def stmts(self):
        for i, b in enumerate(self.blocks):
            if b.get("cleanup"):
                continue
            for j, s in enumerate(b["stmts"]):
                yield i, j, s

    def assigns(self):
        for i, j, s in self.stmts():
            if s["k"] == "assign":
                yield i, j, s["pl"], s["rv"], s

    # -- dominators (Cooper-Harvey-Kennedy) over non-unwind edges -------------------------
    def dominators(self):
        if self._dom is not None:
            return self._dom
        succ = self.succ_map()
        order = []
        seen = set()
        stack = [(0, iter(succ[0]))]
        seen.add(0)
        while stack:
            n, it = stack[-1]
            adv = False
            for s in it:
                if s not in seen:
                    seen.add(s)
                    stack.append((s, iter(succ[s])))
                    adv = True
                    break
            if not adv:
                order.append(n)
                stack.pop()
        rpo = list(reversed(order))
        idx = {n: i for i, n in enumerate(rpo)}
        pred = self.pred_map()
        idom = {0: 0}

        def inter(a, b):
            while a != b:
                while idx[a] > idx[b]:
                    a = idom[a]
                while idx[b] > idx[a]:
                    b = idom[b]
            return a

        changed = True
        while changed:
            changed = False
            for n in rpo[1:]:
                ps = [p for p in pred[n] if p in idom]
                if not ps:
                    continue
                new = ps[0]
                for p in ps[1:]:
                    new = inter(p, new)
                if idom.get(n) != new:
                    idom[n] = new
                    changed = True
        self._dom = idom
        return idom

    def dominates(self, a, b):
        """block a dominates block b (non-unwind CFG)"""
        idom = self.dominators()
        if b not in idom or a not in idom:
            return False
        while True:
            if a == b:
                return True
            if b == 0:
                return False
            b = idom[b]

    # -- def/use ---------------------------------------------------------------------
    def defs(self):
        """local -> list of ('assign', bb, idx, rv) | ('call', bb, Call) | ('arg',)"""
        if self._defs is None:
            d = {}
            for i, j, pl, rv, s in self.assigns():
                if not pl["p"]:
                    d.setdefault(pl["l"], []).append(("assign", i, j, rv))
                else:
                    d.setdefault(pl["l"], []).append(("partial", i, j, rv, pl))
            for c in self.calls():
                if c.dest is not None:
                    if not c.dest["p"]:
                        d.setdefault(c.dest["l"], []).append(("call", c.bb, c))
                    else:
                        d.setdefault(c.dest["l"], []).append(("partialcall", c.bb, c))
            for i, b in enumerate(self.blocks):
                t = b["term"]
                if t["k"] == "yield" and not b.get("cleanup"):
                    ra = t["resume_arg"]
                    d.setdefault(ra["l"], []).append(("yield", i))
            for a in range(1, self.nargs + 1):
                d.setdefault(a, []).append(("arg",))
            self._defs = d
        return self._defs


def rv_operands(rv):
    k = rv["k"]
    if k in ("use", "repeat", "cast"):
        return [rv["op"]]
    if k == "binop":
        return [rv["a"], rv["b"]]
    if k == "unop":
        return [rv["a"]]
    if k == "agg":
        return rv["ops"]
    return []


def rv_places(rv):
    """places read by an rvalue"""
    out = [o["pl"] for o in rv_operands(rv) if o.get("k") in ("copy", "move")]
    if rv["k"] in ("ref", "rawptr", "discr"):
        out.append(rv["pl"])
    return out


def rv_locals(rv):
    ls = set()
    for pl in rv_places(rv):
        ls.add(pl["l"])
        for p in pl["p"]:
            if isinstance(p, dict) and "idx" in p:
                ls.add(p["idx"])
    return ls


def op_const(op):
    if op and op.get("k") == "const":
        return op
    return None


class Facts:
    """All crates of one build configuration."""

    def __init__(self, directory, canonical=True):
        self.dir = directory
        self.crates = []
        self.bodies = {}        # path -> Body   (non-test units win)
        self.by_dpath = {}
        self.test_bodies = {}   # bodies of test/bench/example units
        self.adts = {}
        self.impls = []
        self.consts = {}
        self.units = []
        files = sorted(glob.glob(os.path.join(directory, "*.json")))
        raws = [json.load(open(f)) for f in files]
        self.renames = {}
        if canonical:
            from . import canon
            try:
                self.renames = canon.canonicalise(raws)
            except Exception as e:          # the layer is an aid, never a reason to fail: without it the rules fail closed on missing anchors
                self.renames = {"error": "%s: %s" % (type(e).__name__, e)}
        for f, raw in zip(files, raws):
            unit = {"crate": raw["crate"], "types": raw["crate_types"], "test": raw["test"],
                    "cfgs": raw["cfgs"], "src": raw["src"], "nbodies": len(raw["bodies"]), "file": os.path.basename(f)}
            self.units.append(unit)
            src = raw.get("src", "")
            aux = raw["test"] or "/examples/" in src or "/benches/" in src or "/tests/" in src
            unit["aux"] = aux
            for b in raw["bodies"]:
                body = Body(b, raw["crate"])
                body.unit = unit
                if aux:
                    self.test_bodies.setdefault(body.path, body)
                else:
                    self.bodies.setdefault(body.path, body)
                    self.by_dpath.setdefault(body.dpath, body)
            if not aux:
                for a in raw["adts"]:
                    self.adts.setdefault(a["path"], a)
                for i in raw["impls"]:
                    i["crate"] = raw["crate"]
                    self.impls.append(i)
                for c in raw["consts"]:
                    self.consts.setdefault(c["path"], c)
        self._callers = None

    # -- lookups (fail closed) ------------------------------------------------------
    def body(self, path):
        b = self.bodies.get(path)
        if b is None:
            raise AnchorMissing("function not found in analysed build: " + path)
        return b

    def find_bodies(self, regex):
        r = re.compile(regex)
        return [b for p, b in sorted(self.bodies.items()) if r.search(p)]

    def one_body(self, regex):
        bs = self.find_bodies(regex)
        if len(bs) != 1:
            raise AnchorMissing("expected exactly one function matching /%s/, found %d: %s" % (regex, len(bs), [b.path for b in bs][:6]))
        return bs[0]

    def closures_of(self, body):
        pref = body.path + "::{closure#"
        return [b for p, b in sorted(self.bodies.items()) if p.startswith(pref)]

    def closures_in(self, body):
        """closures / async blocks created in `body` (also in the helpers inlined into it), in creation order"""
        out = []
        for i, j, pl, rv, s in body.assigns():
            if rv["k"] == "agg" and rv.get("closure") and rv["closure"] in self.bodies and self.bodies[rv["closure"]] not in out:
                out.append(self.bodies[rv["closure"]])
        return out

    def const_value(self, path):
        c = self.consts.get(path)
        if c is None:
            raise AnchorMissing("constant not found: " + path)
        v = c.get("value") or {}
        for k in ("int", "str", "bool"):
            if k in v:
                return v[k]
        raise AnchorMissing("constant has no evaluated scalar/str value: " + path)

    def adt(self, path):
        a = self.adts.get(path)
        if a is None:
            raise AnchorMissing("type not found: " + path)
        return a

    def impls_of(self, trait=None, self_adt=None):
        out = []
        for i in self.impls:
            if trait is not None and i.get("trait") != trait:
                continue
            if self_adt is not None and i.get("self_adt") != self_adt:
                continue
            out.append(i)
        return out

    def impl_method(self, trait, self_adt, method):
        for i in self.impls_of(trait, self_adt):
            p = i["items"].get(method)
            if p:
                return self.body(p)
        raise AnchorMissing("no impl of %s::%s for %s" % (trait, method, self_adt))

    def inlined(self, body, depth=3, keep=(), only=None):
        """`body` with calls to small workspace-local functions / visible closures inlined (cached)"""
        from . import inline
        c = getattr(self, "_inl", None)
        if c is None:
            c = self._inl = {}
        k = (body.path, depth, tuple(sorted(keep)), tuple(only) if only else None)
        if k not in c:
            c[k] = inline.inline_body(self, body, depth, keep=tuple(keep), only=only)
        return c[k]

    def derived_bodies(self):
        if getattr(self, "_derived", None) is None:
            d = set()
            for i in self.impls:
                if i.get("derived"):
                    d.update(i["items"].values())
            self._derived = d
        return self._derived

    # -- call graph ---------------------------------------------------------------------
    def callees(self, body, include_closures=True):
        """workspace-local bodies called (resolved) from `body`, incl. closures it creates"""
        out = []
        for c in body.calls():
            r = c.t.get("resolved") or c.callee
            b = self.bodies.get(r)
            if b is not None:
                out.append((c, b))
            elif c.trait and c.trait.startswith("selium") and not c.t.get("resolved_local"):
                # unresolved call through a workspace trait (generic / dyn receiver): every local impl may be the callee
                for im in self.impls_of(c.trait):
                    p = im["items"].get(c.name())
                    if p and p in self.bodies:
                        out.append((c, self.bodies[p]))
        if include_closures:
            for i, j, pl, rv, s in body.assigns():
                if rv["k"] == "agg" and rv.get("agg") in ("closure", "coroutine", "coroutine_closure"):
                    b = self.bodies.get(rv["closure"])
                    if b is not None:
                        out.append((None, b))
        return out

    def region(self, entries, stop=()):
        """transitive closure of workspace-local callees from entry bodies"""
        seen = {}
        st = list(entries)
        while st:
            b = st.pop()
            if b.path in seen or b.path in stop:
                continue
            seen[b.path] = b
            for _, cb in self.callees(b):
                st.append(cb)
        return seen

    def callers_of(self, *names):
        out = []
        for b in self.bodies.values():
            for c in b.calls():
                if c.is_(*names):
                    out.append(c)
        return out
