"""Runs the mirfacts driver over /repo's *current working tree* and loads the facts.

One driver run per build configuration is shared by all checks of a session through a
cache keyed by a content hash of /repo's sources + the driver binary. Cargo's freshness
cache would silently skip the wrapper, so the workspace members' fingerprints are
removed before every run and the presence of one fact file per expected crate is
asserted afterwards (fail closed).
"""
import fcntl
import glob
import hashlib
import json
import os
import shutil
import subprocess
import sys
import time

VERIF = os.path.dirname(os.path.dirname(os.path.abspath(__file__)))
REPO = os.environ.get("VERIF_REPO", "/repo")
CACHE = os.environ.get("VERIF_CACHE") or os.path.join(VERIF, ".cache")
DRIVER = os.environ.get("VERIF_DRIVER") or os.path.join(VERIF, "driver", "target", "release", "mirfacts")

# build configurations: name -> extra cargo args
CONFIGS = {
    "quick": ["--workspace"],
    "alltargets": ["--workspace", "--all-targets"],
    "allfeatures": ["--workspace", "--all-features"],
}
EXPECTED_CRATES = {
    "quick": ["selium", "selium_protocol", "selium_server", "selium_std", "selium_tools"],
    "alltargets": ["selium", "selium_protocol", "selium_server", "selium_std", "selium_tools", "streams", "publish", "subscribe"],
    "allfeatures": ["selium", "selium_protocol", "selium_server", "selium_std", "selium_tools"],
}


class DriverError(Exception):
    pass


def _sysroot():
    return subprocess.check_output(["rustc", "+nightly", "--print", "sysroot"], text=True).strip()


def repo_hash(repo=None):
    repo = repo or REPO
    h = hashlib.sha256()
    files = []
    for root, dirs, fs in os.walk(repo):
        dirs[:] = sorted(d for d in dirs if d not in ("target", ".git"))
        for f in sorted(fs):
            if f.endswith(".rs") or f in ("Cargo.toml", "Cargo.lock") or f.endswith(".der") or f.endswith(".pem"):
                files.append(os.path.join(root, f))
    for p in files:
        h.update(os.path.relpath(p, repo).encode())
        h.update(b"\0")
        with open(p, "rb") as fh:
            h.update(fh.read())
        h.update(b"\0")
    try:
        st = os.stat(DRIVER)
        h.update(("%d:%d" % (st.st_size, st.st_mtime_ns)).encode())
    except OSError:
        pass
    return h.hexdigest()[:24]


def ensure_driver():
    if os.path.exists(DRIVER):
        src = os.path.join(VERIF, "driver", "src", "main.rs")
        if os.path.getmtime(src) <= os.path.getmtime(DRIVER):
            return
    env = dict(os.environ, CARGO_NET_OFFLINE="true")
    r = subprocess.run(["cargo", "build", "--release", "--offline"], cwd=os.path.join(VERIF, "driver"),
                       env=env, capture_output=True, text=True)
    if r.returncode != 0 or not os.path.exists(DRIVER):
        raise DriverError("cannot build mirfacts driver:\n" + r.stderr[-4000:])


def run_driver(config, repo=None, target_dir=None, out_dir=None, quiet=True):
    """Runs the driver for one build configuration; returns the directory with fact files."""
    repo = repo or REPO
    ensure_driver()
    target_dir = target_dir or os.path.join(CACHE, "target-" + ("feat" if config == "allfeatures" else "dflt"))
    os.makedirs(target_dir, exist_ok=True)
    out_dir = out_dir or os.path.join(CACHE, "facts", config)
    if os.path.isdir(out_dir):
        shutil.rmtree(out_dir)
    os.makedirs(out_dir)
    # cargo must not consider the workspace members fresh, or the wrapper is skipped
    for fp in glob.glob(os.path.join(target_dir, "debug", ".fingerprint", "selium*")):
        shutil.rmtree(fp, ignore_errors=True)
    env = dict(os.environ)
    env.update({
        "LD_LIBRARY_PATH": os.path.join(_sysroot(), "lib") + ":" + env.get("LD_LIBRARY_PATH", ""),
        "RUSTFLAGS": "-Zmir-opt-level=0 -Awarnings",
        "RUSTC_WORKSPACE_WRAPPER": DRIVER,
        "CARGO_TARGET_DIR": target_dir,
        "MIRFACTS_OUT": out_dir,
        "CARGO_NET_OFFLINE": "true",
        "CARGO_INCREMENTAL": "0",
    })
    cmd = ["cargo", "+nightly", "check", "--offline"] + CONFIGS[config]
    t0 = time.time()
    r = subprocess.run(cmd, cwd=repo, env=env, capture_output=True, text=True)
    dt = time.time() - t0
    if r.returncode != 0:
        raise DriverError("cargo check failed under the fact extractor (does /repo compile?)\n" + r.stderr[-6000:])
    files = glob.glob(os.path.join(out_dir, "*.json"))
    crates = set(os.path.basename(f).split("-")[0] for f in files)
    missing = [c for c in EXPECTED_CRATES[config] if c not in crates]
    if missing:
        raise DriverError("fact files missing for crates %s (driver skipped?)" % missing)
    if not quiet:
        print("driver[%s]: %d fact files in %.1fs" % (config, len(files), dt), file=sys.stderr)
    return out_dir, dt


def facts_dir(config):
    """Cached per (repo content hash, config). Serialised with a lock file."""
    os.makedirs(CACHE, exist_ok=True)
    lock = open(os.path.join(CACHE, "lock-" + config), "w")
    fcntl.flock(lock, fcntl.LOCK_EX)
    try:
        key = repo_hash()
        stamp = os.path.join(CACHE, "facts", config + ".stamp")
        out_dir = os.path.join(CACHE, "facts", config)
        if os.path.exists(stamp) and os.path.isdir(out_dir):
            try:
                st = json.load(open(stamp))
                if st.get("key") == key and all(os.path.exists(os.path.join(out_dir, f)) for f in st.get("files", [])) and st.get("files"):
                    return out_dir, {"cached": True, "key": key, "driver_s": st.get("driver_s", 0.0)}
            except Exception:
                pass
        if os.path.exists(stamp):
            os.remove(stamp)
        out_dir, dt = run_driver(config)
        files = sorted(os.path.basename(f) for f in glob.glob(os.path.join(out_dir, "*.json")))
        # the tree must not have changed while we were analysing it
        if repo_hash() != key:
            raise DriverError("/repo changed during the driver run")
        json.dump({"key": key, "files": files, "driver_s": dt}, open(stamp, "w"))
        return out_dir, {"cached": False, "key": key, "driver_s": dt}
    finally:
        fcntl.flock(lock, fcntl.LOCK_UN)
        lock.close()
