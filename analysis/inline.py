"""MIR inliner for workspace-local calls (makes rules robust to extract-function refactorings).

inline_body(F, body, depth) returns a new Body whose calls to small, non-recursive workspace-local functions (and to closures whose
definition is visible as a local aggregate) are replaced by a renumbered copy of the callee's blocks. Every block carries `origin`
(def-path of the function it came from) so that site keys stay stable."""
import copy

from .facts import Body, strip_generics
from . import flow

MAX_BLOCKS = 400
CLOSURE_CALLS = {"core::ops::function::FnMut::call_mut", "core::ops::function::FnOnce::call_once", "core::ops::function::Fn::call"}


def _shift_place(pl, lo):
    pl["l"] += lo
    for e in pl["p"]:
        if isinstance(e, dict) and "idx" in e:
            e["idx"] += lo


def _shift_operand(op, lo):
    if op.get("k") in ("copy", "move"):
        _shift_place(op["pl"], lo)


def _shift_rvalue(rv, lo):
    k = rv["k"]
    if k in ("use", "repeat", "cast"):
        _shift_operand(rv["op"], lo)
    elif k in ("ref", "rawptr", "discr"):
        _shift_place(rv["pl"], lo)
    elif k == "binop":
        _shift_operand(rv["a"], lo)
        _shift_operand(rv["b"], lo)
    elif k == "unop":
        _shift_operand(rv["a"], lo)
    elif k == "agg":
        for o in rv["ops"]:
            _shift_operand(o, lo)


def _shift_block(b, lo, bo):
    b["id"] += bo
    for s in b["stmts"]:
        k = s["k"]
        if k == "assign":
            _shift_place(s["pl"], lo)
            _shift_rvalue(s["rv"], lo)
        elif k in ("live", "dead"):
            s["l"] += lo
        elif k in ("fakeread", "mention", "setdiscr"):
            _shift_place(s["pl"], lo)
    t = b["term"]
    k = t["k"]
    for key in ("target", "unwind", "drop"):
        if isinstance(t.get(key), int):
            t[key] += bo
    if k == "switch":
        _shift_operand(t["discr"], lo)
        t["targets"] = [[v, x + bo] for v, x in t["targets"]]
        t["otherwise"] += bo
    elif k in ("call", "tailcall"):
        for a in t.get("args", []):
            _shift_operand(a, lo)
        if t.get("func"):
            _shift_operand(t["func"], lo)
        if t.get("dest"):
            _shift_place(t["dest"], lo)
    elif k == "drop":
        _shift_place(t["pl"], lo)
    elif k == "assert":
        _shift_operand(t["cond"], lo)
        d = t.get("detail")
        if d:
            for kk in ("a", "b"):
                if kk in d:
                    _shift_operand(d[kk], lo)
    elif k == "yield":
        _shift_operand(t["value"], lo)
        _shift_place(t["resume_arg"], lo)


def _callee_of(F, body, t, stack, keep=()):
    """(callee Body, mode) for an inlinable call terminator, else None"""
    if t["k"] != "call" or t.get("target") is None:
        return None
    name = strip_generics(t.get("callee", ""))
    res = t.get("resolved") or t.get("callee", "")
    cb = F.bodies.get(res)
    if res in keep or strip_generics(res) in keep:
        return None
    if cb is not None and not cb.is_coroutine and cb.kind in ("Fn", "AssocFn") and res not in stack and len(cb.blocks) <= MAX_BLOCKS:
        return cb, "fn"
    return None


def inline_body(F, body, depth=3, _stack=None, keep=()):
    stack = list(_stack or []) + [body.path]
    raw = copy.deepcopy(body.raw)
    for b in raw["blocks"]:
        b.setdefault("origin", body.path)
    changed = False
    work = list(range(len(raw["blocks"])))
    budget = 60
    while work and budget > 0:
        bi = work.pop(0)
        blk = raw["blocks"][bi]
        if blk.get("cleanup"):
            continue
        t = blk["term"]
        origin_stack = stack + blk.get("inl_stack", [])
        if len(blk.get("inl_stack", [])) >= depth:
            continue
        tmp_body = None
        c = _callee_of(F, body, t, origin_stack, keep)
        mode = None
        callee = None
        closure_env = None
        if c is not None:
            callee, mode = c
        elif t["k"] == "call" and strip_generics(t.get("callee", "")) in CLOSURE_CALLS and t.get("target") is not None:
            # closure whose definition is visible as an aggregate reaching arg0 through single-definition copies
            tmp_body = Body(raw, body.crate)
            tmp_body.path = body.path
            r = flow.root(tmp_body, t["args"][0], through_calls=())
            if r[0] == "rv" and r[1]["k"] == "agg" and r[1].get("agg") == "closure":
                cb = F.bodies.get(r[1]["closure"])
                if cb is not None and not cb.is_coroutine and r[1]["closure"] not in origin_stack and len(cb.blocks) <= MAX_BLOCKS:
                    callee, mode = cb, "closure"
        if callee is None:
            continue
        budget -= 1
        changed = True
        lo = len(raw["locals"])
        bo = len(raw["blocks"])
        craw = copy.deepcopy(callee.raw)
        for l in craw["locals"]:
            l["id"] += lo
            l["inlined_from"] = callee.path
            raw["locals"].append(l)
        span = t.get("span", "")
        # prologue: bind arguments
        stmts = []
        if mode == "fn":
            for i, a in enumerate(t["args"]):
                stmts.append({"k": "assign", "pl": {"l": lo + 1 + i, "p": []}, "rv": {"k": "use", "op": a}, "span": span})
        else:
            stmts.append({"k": "assign", "pl": {"l": lo + 1, "p": []}, "rv": {"k": "use", "op": t["args"][0]}, "span": span})
            tup = t["args"][1] if len(t["args"]) > 1 else None
            nparams = callee.nargs - 1
            for i in range(nparams):
                if tup is not None and tup.get("k") in ("copy", "move"):
                    pl = {"l": tup["pl"]["l"], "p": list(tup["pl"]["p"]) + [i]}
                    stmts.append({"k": "assign", "pl": {"l": lo + 2 + i, "p": []}, "rv": {"k": "use", "op": {"k": tup["k"], "pl": pl}}, "span": span})
        dest, target = t.get("dest"), t["target"]
        inl = blk.get("inl_stack", []) + [callee.path]
        for cbk in craw["blocks"]:
            _shift_block(cbk, lo, bo)
            cbk["origin"] = cbk.get("origin", callee.path)
            cbk["inl_stack"] = inl
            if "unwind" in cbk["term"]:
                cbk["term"]["unwind"] = None
            if cbk["term"]["k"] == "return" and not cbk.get("cleanup"):
                if dest is not None:
                    cbk["stmts"].append({"k": "assign", "pl": copy.deepcopy(dest), "rv": {"k": "use", "op": {"k": "move", "pl": {"l": lo, "p": []}}}, "span": span})
                cbk["term"] = {"k": "goto", "target": target, "span": span, "inlined_return": True}
            raw["blocks"].append(cbk)
        blk["stmts"] = blk["stmts"] + stmts
        blk["term"] = {"k": "goto", "target": bo, "span": span, "inlined_call": callee.path}
        work.extend(range(bo, bo + len(craw["blocks"])))
    if not changed:
        return body
    nb = Body(raw, body.crate)
    nb.unit = getattr(body, "unit", None)
    nb.inlined = True
    return nb


def origin_of(body, bb):
    return body.blocks[bb].get("origin", body.path)
