"""MIR inliner for workspace-local calls (makes rules robust to extract-function refactorings).

inline_body(F, body, depth) returns a new Body whose calls to small, non-recursive workspace-local functions (and to closures whose
definition is visible as a local aggregate) are replaced by a renumbered copy of the callee's blocks. Every block carries `origin`
(def-path of the function it came from) so that site keys stay stable."""
import copy
import re

from .facts import Body, strip_generics
from . import flow

MAX_BLOCKS = 1200
CLOSURE_CALLS = {"core::ops::function::FnMut::call_mut", "core::ops::function::FnOnce::call_once", "core::ops::function::Fn::call"}


def _shift_place(pl, lo):
    pl["l"] += lo
    for e in pl["p"]:
        if isinstance(e, dict) and "idx" in e:
            e["idx"] += lo


def _shift_operand(op, lo):
    if op.get("k") in ("copy", "move"):
        _shift_place(op["pl"], lo)


def _shift_rvalue(rv, lo):
    k = rv["k"]
    if k in ("use", "repeat", "cast"):
        _shift_operand(rv["op"], lo)
    elif k in ("ref", "rawptr", "discr"):
        _shift_place(rv["pl"], lo)
    elif k == "binop":
        _shift_operand(rv["a"], lo)
        _shift_operand(rv["b"], lo)
    elif k == "unop":
        _shift_operand(rv["a"], lo)
    elif k == "agg":
        for o in rv["ops"]:
            _shift_operand(o, lo)


def _shift_block(b, lo, bo):
    b["id"] += bo
    for s in b["stmts"]:
        k = s["k"]
        if k == "assign":
            _shift_place(s["pl"], lo)
            _shift_rvalue(s["rv"], lo)
        elif k in ("live", "dead"):
            s["l"] += lo
        elif k in ("fakeread", "mention", "setdiscr"):
            _shift_place(s["pl"], lo)
    t = b["term"]
    k = t["k"]
    for key in ("target", "unwind", "drop"):
        if isinstance(t.get(key), int):
            t[key] += bo
    if k == "switch":
        _shift_operand(t["discr"], lo)
        t["targets"] = [[v, x + bo] for v, x in t["targets"]]
        t["otherwise"] += bo
    elif k in ("call", "tailcall"):
        for a in t.get("args", []):
            _shift_operand(a, lo)
        if t.get("func"):
            _shift_operand(t["func"], lo)
        if t.get("dest"):
            _shift_place(t["dest"], lo)
    elif k == "drop":
        _shift_place(t["pl"], lo)
    elif k == "assert":
        _shift_operand(t["cond"], lo)
        d = t.get("detail")
        if d:
            for kk in ("a", "b"):
                if kk in d:
                    _shift_operand(d[kk], lo)
    elif k == "yield":
        _shift_operand(t["value"], lo)
        _shift_place(t["resume_arg"], lo)


def _callee_of(F, body, t, stack, keep=(), only=None):
    """(callee Body, mode) for an inlinable call terminator, else None"""
    if t["k"] != "call" or t.get("target") is None:
        return None
    name = strip_generics(t.get("callee", ""))
    res = t.get("resolved") or t.get("callee", "")
    cb = F.bodies.get(res)
    if res in keep or strip_generics(res) in keep:
        return None
    if only is not None and not res.startswith(tuple(only)) and not res.lstrip("<").startswith(tuple(only)):
        return None
    if cb is not None and not cb.is_coroutine and cb.kind in ("Fn", "AssocFn") and res not in stack and len(cb.blocks) <= MAX_BLOCKS:
        return cb, "fn"
    return None


def inline_body(F, body, depth=3, _stack=None, keep=(), only=None):
    stack = list(_stack or []) + [body.path]
    raw = copy.deepcopy(body.raw)
    for b in raw["blocks"]:
        b.setdefault("origin", body.path)
    changed = False
    work = list(range(len(raw["blocks"])))
    budget = 60
    while work and budget > 0:
        bi = work.pop(0)
        blk = raw["blocks"][bi]
        if blk.get("cleanup"):
            continue
        t = blk["term"]
        origin_stack = stack + blk.get("inl_stack", [])
        if len(blk.get("inl_stack", [])) >= depth:
            continue
        tmp_body = None
        if t["k"] == "call" and t.get("target") is not None and t.get("dest") is not None and \
                strip_generics(t.get("callee", "")) in ("core::cmp::PartialEq::eq", "core::cmp::PartialEq::ne"):
            if _summarise_enum_eq(F, raw, bi, t, body):
                changed = True
                work.extend(range(len(raw["blocks"]) - 2, len(raw["blocks"])))
                continue
        if t["k"] == "call" and t.get("target") is not None and t.get("dest") is not None and \
                strip_generics(t.get("callee", "")) in ("core::iter::traits::iterator::Iterator::any", "core::iter::traits::iterator::Iterator::all"):
            nb0 = len(raw["blocks"])
            if _summarise_any_all(raw, bi, t, body):
                changed = True
                work.extend(range(nb0, len(raw["blocks"])))
                continue
        if t["k"] == "call" and t.get("target") is not None and t.get("dest") is not None and strip_generics(t.get("callee", "")) == "core::bool::<impl bool>::then_some" \
                and len(blk.get("inl_stack", [])) >= 1:
            # (only inside inlined helpers: `cond.then_some(x)` as a helper's way of saying "Some(x) if cond" must reach the caller's match)
            if _summarise_then_some(raw, bi, t):
                changed = True
                continue
        if t["k"] == "call" and t.get("target") is not None and t.get("dest") is not None and strip_generics(t.get("callee", "")) == "core::task::poll::Poll::map":
            nb0 = len(raw["blocks"])
            if _summarise_poll_map(raw, bi, t):
                changed = True
                work.extend(range(nb0, len(raw["blocks"])))
                continue
        if t["k"] == "call" and t.get("target") is not None and t.get("dest") is not None and strip_generics(t.get("callee", "")) in _CTOR_MAPS:
            if _summarise_ctor_map(F, raw, bi, t):
                changed = True
                continue
        if t["k"] == "call" and t.get("target") is not None and t.get("dest") is not None and strip_generics(t.get("callee", "")) == "core::option::Option::ok_or":
            if _summarise_ok_or(raw, bi, t):
                changed = True
                continue
        c = _callee_of(F, body, t, origin_stack, keep, only)
        mode = None
        callee = None
        closure_env = None
        if c is not None:
            callee, mode = c
        elif t["k"] == "call" and strip_generics(t.get("callee", "")) in CLOSURE_CALLS and t.get("target") is not None:
            # closure whose definition is visible as an aggregate reaching arg0 through single-definition copies
            tmp_body = Body(raw, body.crate)
            tmp_body.path = body.path
            r = flow.root(tmp_body, t["args"][0], through_calls=())
            if r[0] == "rv" and r[1]["k"] == "agg" and r[1].get("agg") == "closure":
                cb = F.bodies.get(r[1]["closure"])
                if cb is not None and not cb.is_coroutine and r[1]["closure"] not in origin_stack and len(cb.blocks) <= MAX_BLOCKS:
                    callee, mode = cb, "closure"
        if callee is None and t["k"] == "call" and t.get("target") is not None and strip_generics(t.get("callee", "")) in STD_SUMMARIES and t.get("dest") is not None:
            if _summarise_std(raw, bi, t):
                changed = True
                work.extend(range(len(raw["blocks"]) - 3, len(raw["blocks"])))
                continue
        async_info = None
        pending_subst = None
        if callee is None and t["k"] == "call" and strip_generics(t.get("callee", "")) == "core::future::future::Future::poll" and t.get("target") is not None:
            # `.await` of a workspace-local async fn / async block: the poll resolves to that coroutine's body
            res = t.get("resolved") or ""
            cb = F.bodies.get(res)
            if cb is not None and cb.is_coroutine and res not in origin_stack and res not in keep and strip_generics(res) not in keep \
                    and (only is None or res.startswith(tuple(only)) or res.lstrip("<").startswith(tuple(only))) \
                    and len(cb.blocks) <= MAX_BLOCKS and any("Await" in m for m in t.get("macros", [])):
                tmp_body = Body(raw, body.crate)
                tmp_body.path = body.path
                async_info = _await_parts(tmp_body, t, res)
                if async_info is not None:
                    callee, mode = cb, "async"
        if callee is None:
            continue
        budget -= 1
        changed = True
        lo = len(raw["locals"])
        bo = len(raw["blocks"])
        craw = copy.deepcopy(callee.raw)
        for l in craw["locals"]:
            l["id"] += lo
            l["inlined_from"] = callee.path
            raw["locals"].append(l)
        span = t.get("span", "")
        # prologue: bind arguments
        stmts = []
        if mode == "fn":
            for i, a in enumerate(t["args"]):
                stmts.append({"k": "assign", "pl": {"l": lo + 1 + i, "p": []}, "rv": {"k": "use", "op": a}, "span": span})
        elif mode == "async":
            fut_local, ctx_local, upvars = async_info
            stmts.append({"k": "assign", "pl": {"l": lo + 1, "p": []}, "rv": {"k": "use", "op": {"k": "move", "pl": {"l": fut_local, "p": []}}}, "span": span})
            if ctx_local is not None:
                stmts.append({"k": "assign", "pl": {"l": lo + 2, "p": []}, "rv": {"k": "use", "op": {"k": "copy", "pl": {"l": ctx_local, "p": []}}}, "span": span})
            if upvars is not None:
                # captured arguments: `_1.i` of the callee becomes a fresh local bound to the operand the coroutine was built from
                base = len(raw["locals"])
                umap = {}
                for i, a in enumerate(upvars):
                    nl = base + i
                    ty = ""
                    raw["locals"].append({"id": nl, "ty": ty, "inlined_from": callee.path, "upvar": i})
                    umap[i] = nl
                    stmts.append({"k": "assign", "pl": {"l": nl, "p": []}, "rv": {"k": "use", "op": copy.deepcopy(a)}, "span": span})
                pending_subst = (lo + 1, umap)
        else:
            stmts.append({"k": "assign", "pl": {"l": lo + 1, "p": []}, "rv": {"k": "use", "op": t["args"][0]}, "span": span})
            tup = t["args"][1] if len(t["args"]) > 1 else None
            nparams = callee.nargs - 1
            for i in range(nparams):
                if tup is not None and tup.get("k") in ("copy", "move"):
                    pl = {"l": tup["pl"]["l"], "p": list(tup["pl"]["p"]) + [i]}
                    stmts.append({"k": "assign", "pl": {"l": lo + 2 + i, "p": []}, "rv": {"k": "use", "op": {"k": tup["k"], "pl": pl}}, "span": span})
        dest, target = t.get("dest"), t["target"]
        inl = blk.get("inl_stack", []) + [callee.path]
        for cbk in craw["blocks"]:
            _shift_block(cbk, lo, bo)
            if mode == "async" and pending_subst is not None:
                _subst_block(cbk, pending_subst[0], pending_subst[1])
            cbk["origin"] = cbk.get("origin", callee.path)
            cbk["inl_stack"] = inl
            if "unwind" in cbk["term"]:
                cbk["term"]["unwind"] = None
            if cbk["term"]["k"] == "return" and not cbk.get("cleanup"):
                if dest is not None:
                    if mode == "async":
                        rv = {"k": "agg", "agg": "adt", "adt": "core::task::poll::Poll", "vidx": 0, "variant": "Ready", "fields": ["0"],
                              "ops": [{"k": "move", "pl": {"l": lo, "p": []}}]}
                    else:
                        rv = {"k": "use", "op": {"k": "move", "pl": {"l": lo, "p": []}}}
                    cbk["stmts"].append({"k": "assign", "pl": copy.deepcopy(dest), "rv": rv, "span": span})
                cbk["term"] = {"k": "goto", "target": target, "span": span, "inlined_return": True}
                cbk["ret_merge"] = True
            raw["blocks"].append(cbk)
        blk["stmts"] = blk["stmts"] + stmts
        blk["term"] = {"k": "goto", "target": bo, "span": span, "inlined_call": callee.path}
        work.extend(range(bo, bo + len(craw["blocks"])))
    if changed:
        forward_refs(raw, len(body.raw["locals"]), body.raw.get("args", 0))
    thread_jumps(raw)
    if not changed and not any(b_.get("jt_clone") is not None or b_["term"].get("jt_folded") for b_ in raw["blocks"]):
        return body
    nb = Body(raw, body.crate)
    nb.unit = getattr(body, "unit", None)
    nb.inlined = True
    return nb


def forward_refs(raw, n0, argc):
    """After inlining, a helper that took `&self.field` (or `&mut *self`) reads its state through a reference local. Rules look at
    places rooted in the caller's own locals, so places based on such a reference are rewritten to the place it points to:
    `_s = &mut (*_1).state; .. (*_s).max` becomes `.. (*_1).state.max`. Only single-definition reference locals introduced by the
    inlining (id >= n0) are rewritten, and only when they point into an argument of the outer body through field / deref projections
    (a stable address for the whole body)."""
    if isinstance(argc, list):
        argc = len(argc)
    defs = {}
    for b in raw["blocks"]:
        for s in b["stmts"]:
            if s["k"] == "assign" and s["pl"]["p"][:1] != ["*"]:        # (a store through the reference does not redefine it)
                defs.setdefault(s["pl"]["l"], []).append(s["rv"] if not s["pl"]["p"] else None)
        t = b["term"]
        for key in ("dest", "resume_arg"):
            d = t.get(key)
            if isinstance(d, dict) and "l" in d:
                defs.setdefault(d["l"], []).append(None)

    def stable(p):
        return all(e == "*" or isinstance(e, int) or (isinstance(e, dict) and "vn" in e) for e in p)
    alias = {}

    def resolve(l, depth=0):
        if l in alias:
            return alias[l]
        if depth > 8:
            return None
        ds = defs.get(l, [])
        out = None
        if len(ds) == 1 and ds[0] is not None:
            rv = ds[0]
            if rv["k"] == "ref" and stable(rv["pl"]["p"]):
                base, proj = rv["pl"]["l"], list(rv["pl"]["p"])
                if 1 <= base <= argc and not defs.get(base):
                    out = {"l": base, "p": proj}
                elif proj[:1] == ["*"]:
                    a = resolve(base, depth + 1)
                    if a is not None:
                        out = {"l": a["l"], "p": list(a["p"]) + proj[1:]}
                elif "*" not in proj:
                    out = {"l": base, "p": proj}          # a reference to (a field of) a local: a local's address never changes
            elif rv["k"] == "use" and rv["op"].get("k") in ("copy", "move") and not rv["op"]["pl"]["p"]:
                out = resolve(rv["op"]["pl"]["l"], depth + 1)
        alias[l] = out
        return out

    def walk(x):
        if isinstance(x, dict):
            if set(x.keys()) == {"l", "p"} and isinstance(x["l"], int) and isinstance(x["p"], list):
                if x["l"] >= n0 and x["p"][:1] == ["*"]:
                    a = resolve(x["l"])
                    if a is not None:
                        x["p"] = list(a["p"]) + x["p"][1:]
                        x["l"] = a["l"]
                return
            for v in x.values():
                walk(v)
        elif isinstance(x, list):
            for v in x:
                walk(v)
    for b in raw["blocks"]:
        for s in b["stmts"]:
            if s["k"] == "assign":
                walk(s["rv"])
                if s["pl"]["p"]:
                    walk(s["pl"])
        t = b["term"]
        for key, v in t.items():
            if key not in ("span", "targets"):
                walk(v)


# Option / Result combinators that take a predicate closure, written out as the match they stand for, so that the closure body becomes
# visible to path rules: (variant that calls the closure, value on the other variant: bool constant or "default" = the 2nd argument)
STD_SUMMARIES = {
    "core::option::Option::is_some_and": ("core::option::Option", "Some", False),
    "core::option::Option::is_none_or": ("core::option::Option", "Some", True),
    "core::result::Result::is_ok_and": ("core::result::Result", "Ok", False),
    "core::result::Result::is_err_and": ("core::result::Result", "Err", False),
    "core::option::Option::map_or": ("core::option::Option", "Some", "default"),
}
_VARIANTS = {"core::option::Option": [{"name": "None", "idx": 0, "discr": 0}, {"name": "Some", "idx": 1, "discr": 1}],
             "core::result::Result": [{"name": "Ok", "idx": 0, "discr": 0}, {"name": "Err", "idx": 1, "discr": 1}],
             "core::task::poll::Poll": [{"name": "Ready", "idx": 0, "discr": 0}, {"name": "Pending", "idx": 1, "discr": 1}]}


def _summarise_enum_eq(F, raw, bi, t, body):
    """`x == Enum::Unit` / `x != Enum::Unit` on a workspace-local field-less enum with a derived PartialEq, where one side is a promoted
    `&Enum::Unit` constant: written out as the discriminant test it stands for, so that jump threading can carry a known variant into it"""
    res = t.get("resolved") or ""
    m = re.match(r"^<(.+) as core::cmp::PartialEq>::(eq|ne)$", res)
    if not m:
        return False
    adt = F.adts.get(m.group(1))
    if adt is None or adt.get("kind") != "Enum" or any(v.get("fields") for v in adt["variants"]):
        return False
    ims = [im for im in F.impls_of("core::cmp::PartialEq", m.group(1))]
    if len(ims) != 1 or not ims[0].get("derived"):
        return False
    args = t.get("args", [])
    if len(args) != 2 or any(a.get("k") not in ("copy", "move") or a["pl"]["p"] for a in args):
        return False
    tb = Body(raw, body.crate)
    tb.path = body.path

    def side(a):
        """('const', variant) | ('place', place) | None for a `&Enum` argument"""
        d = flow.single_def(tb, a["pl"]["l"])
        for _ in range(4):
            if d and d[0] == "assign" and d[3]["k"] == "use" and d[3]["op"].get("k") in ("copy", "move") and not d[3]["op"]["pl"]["p"]:
                d = flow.single_def(tb, d[3]["op"]["pl"]["l"])
            else:
                break
        if not (d and d[0] == "assign"):
            return None
        rv = d[3]
        if rv["k"] == "use" and rv["op"].get("k") == "const" and rv["op"].get("promoted_adt") == m.group(1):
            return ("const", rv["op"]["promoted_variant"])
        if rv["k"] == "ref":
            pl = rv["pl"]
            if pl["p"] == ["*"]:
                d2 = flow.single_def(tb, pl["l"])
                if d2 and d2[0] == "assign" and d2[3]["k"] == "use" and d2[3]["op"].get("k") == "const" and d2[3]["op"].get("promoted_adt") == m.group(1):
                    return ("const", d2[3]["op"]["promoted_variant"])
            if all(e == "*" or isinstance(e, int) or (isinstance(e, dict) and "vn" in e) for e in pl["p"]):
                return ("place", pl)
        return None
    sa, sb = side(args[0]), side(args[1])
    if sa is None or sb is None or (sa[0] == "const") == (sb[0] == "const"):
        return False
    variant = sa[1] if sa[0] == "const" else sb[1]
    place = sb[1] if sa[0] == "const" else sa[1]
    vs = [{"name": v["name"], "idx": v["idx"], "discr": v["discr"]} for v in adt["variants"]]
    hit = [v for v in vs if v["name"] == variant]
    if not hit:
        return False
    span = t.get("span", "")
    blocks, locs = raw["blocks"], raw["locals"]
    blk = blocks[bi]
    d = len(locs)
    locs.append({"id": d, "ty": "isize", "synthetic": True})
    inl = blk.get("inl_stack", [])
    org = blk.get("origin", raw["path"])
    is_eq = m.group(2) == "eq"
    b_hit, b_other = len(blocks), len(blocks) + 1
    for bid, val in ((b_hit, is_eq), (b_other, not is_eq)):
        blocks.append({"id": bid, "cleanup": False, "origin": org, "inl_stack": inl,
                       "stmts": [{"k": "assign", "pl": copy.deepcopy(t["dest"]), "rv": {"k": "use", "op": {"k": "const", "ty": "bool", "bool": bool(val)}}, "span": span}],
                       "term": {"k": "goto", "target": t["target"], "span": span}})
    blk["stmts"] = blk["stmts"] + [{"k": "assign", "pl": {"l": d, "p": []}, "rv": {"k": "discr", "pl": copy.deepcopy(place), "adt": m.group(1), "ty": m.group(1), "variants": vs}, "span": span}]
    blk["term"] = {"k": "switch", "discr": {"k": "move", "pl": {"l": d, "p": []}}, "discr_ty": "isize", "targets": [[hit[0]["discr"], b_hit]], "otherwise": b_other, "span": span,
                   "std_summary": "enum-eq"}
    return True


def _summarise_any_all(raw, bi, t, body):
    """`[a, b, ..].iter().any(pred)` / `.all(pred)` over an array literal: written out as the short-circuit chain of predicate calls it
    stands for (`pred(&a) || pred(&b) || ..`), so that path rules see one test per element"""
    is_any = strip_generics(t["callee"]).endswith("::any")
    args = t.get("args", [])
    if len(args) != 2 or any(a.get("k") not in ("copy", "move") or a["pl"]["p"] for a in args):
        return False
    tb = Body(raw, body.crate)
    tb.path = body.path

    def one(l):
        d = flow.single_def(tb, l)
        return d if d and d[0] in ("assign", "call") else None
    d = one(args[0]["pl"]["l"])                      # &mut iter
    if not (d and d[0] == "assign" and d[3]["k"] == "ref" and not d[3]["pl"]["p"]):
        return False
    d = one(d[3]["pl"]["l"])                         # iter = <[T]>::iter(slice)
    if not (d and d[0] == "call" and strip_generics(d[2].callee) in ("core::slice::<impl [T]>::iter", "core::array::<impl core::iter::traits::collect::IntoIterator for &[T; N]>::into_iter")
            and d[2].args and d[2].args[0].get("k") in ("copy", "move")):
        return False
    l = d[2].args[0]["pl"]["l"]
    arr = None
    for _ in range(4):                               # slice = &arr (unsized)
        d = one(l)
        if not (d and d[0] == "assign"):
            return False
        rv = d[3]
        if rv["k"] in ("cast", "use") and rv["op"].get("k") in ("copy", "move") and not rv["op"]["pl"]["p"]:
            l = rv["op"]["pl"]["l"]
            continue
        if rv["k"] == "ref" and not rv["pl"]["p"]:
            a = one(rv["pl"]["l"])
            if a and a[0] == "assign" and a[3]["k"] == "agg" and a[3].get("agg") == "array":
                arr = a[3]
            break
        return False
    if arr is None or not (1 <= len(arr["ops"]) <= 8):
        return False
    arr_local = rv["pl"]["l"]
    span = t.get("span", "")
    blocks, locs = raw["blocks"], raw["locals"]
    blk = blocks[bi]
    inl = blk.get("inl_stack", [])
    org = blk.get("origin", raw["path"])
    clo = args[1]["pl"]["l"]

    def new_local(ty=""):
        locs.append({"id": len(locs), "ty": ty, "synthetic": True})
        return len(locs) - 1
    n = len(arr["ops"])
    base = len(blocks)
    # blocks: for each k: call block (base + 2k), test block (base + 2k + 1); then the two exits
    b_short, b_end = base + 2 * n, base + 2 * n + 1
    for k, op in enumerate(arr["ops"]):
        ek, tup, cr, res = new_local(), new_local(), new_local(), new_local("bool")
        nxt = base + 2 * (k + 1) if k + 1 < n else b_end
        blocks.append({"id": base + 2 * k, "cleanup": False, "origin": org, "inl_stack": inl, "stmts": [
            {"k": "assign", "pl": {"l": ek, "p": []}, "rv": {"k": "ref", "mut": False, "pl": {"l": arr_local, "p": [{"cidx": k, "from_end": False}]}}, "span": span},
            {"k": "assign", "pl": {"l": tup, "p": []}, "rv": {"k": "agg", "agg": "tuple", "ops": [{"k": "move", "pl": {"l": ek, "p": []}}]}, "span": span},
            {"k": "assign", "pl": {"l": cr, "p": []}, "rv": {"k": "ref", "mut": True, "pl": {"l": clo, "p": []}}, "span": span}],
            "term": {"k": "call", "callee": "core::ops::function::FnMut::call_mut", "callee_full": "core::ops::function::FnMut::call_mut",
                     "args": [{"k": "move", "pl": {"l": cr, "p": []}}, {"k": "move", "pl": {"l": tup, "p": []}}], "arg_tys": [], "dest": {"l": res, "p": []},
                     "target": base + 2 * k + 1, "unwind": None, "span": span, "synthetic": True}})
        # any: true -> short-circuit; all: false -> short-circuit
        blocks.append({"id": base + 2 * k + 1, "cleanup": False, "origin": org, "inl_stack": inl, "stmts": [],
                       "term": {"k": "switch", "discr": {"k": "move", "pl": {"l": res, "p": []}}, "discr_ty": "bool",
                                "targets": [[0, nxt if is_any else b_short]], "otherwise": b_short if is_any else nxt, "span": span, "std_summary": "iter-any-all"}})
    for bid, val in ((b_short, is_any), (b_end, not is_any)):
        blocks.append({"id": bid, "cleanup": False, "origin": org, "inl_stack": inl,
                       "stmts": [{"k": "assign", "pl": copy.deepcopy(t["dest"]), "rv": {"k": "use", "op": {"k": "const", "ty": "bool", "bool": bool(val)}}, "span": span}],
                       "term": {"k": "goto", "target": t["target"], "span": span}})
    blk["term"] = {"k": "goto", "target": base, "span": span, "std_summary": "iter-any-all"}
    return True


_CTOR_MAPS = {"core::result::Result::map": ("core::result::Result", "Ok", "Err"), "core::option::Option::map": ("core::option::Option", "Some", "None")}


def _summarise_ctor_map(F, raw, bi, t):
    """`res.map(Enum::Variant)` / `opt.map(Enum::Variant)` — a tuple-variant constructor used as the mapping function — written out as
    `match res { Ok(v) => Ok(Enum::Variant(v)), Err(e) => Err(e) }`, so that the value built is visible as an aggregate"""
    adt, hit, other = _CTOR_MAPS[strip_generics(t["callee"])]
    args = t.get("args", [])
    if len(args) != 2 or args[0].get("k") not in ("copy", "move") or args[0]["pl"]["p"] or args[1].get("k") != "const" or not args[1].get("fn"):
        return False
    fn = args[1]["fn"]
    owner, vname = fn.rsplit("::", 1) if "::" in fn else (fn, "")
    a = F.adts.get(owner)
    if a is None or fn in F.bodies:
        return False
    vv = [v for v in a.get("variants", []) if v["name"] == vname and len(v.get("fields", [])) == 1]
    if not vv:
        return False
    span = t.get("span", "")
    blocks, locs = raw["blocks"], raw["locals"]
    blk = blocks[bi]
    subj = args[0]["pl"]["l"]
    d = len(locs)
    locs.append({"id": d, "ty": "isize", "synthetic": True})
    pay = len(locs)
    locs.append({"id": pay, "ty": "", "synthetic": True})
    built = len(locs)
    locs.append({"id": built, "ty": owner, "adt": owner, "synthetic": True})
    inl = blk.get("inl_stack", [])
    org = blk.get("origin", raw["path"])
    vs = _VARIANTS[adt]
    hv = [v for v in vs if v["name"] == hit][0]
    ov = [v for v in vs if v["name"] == other][0]
    b_hit, b_other = len(blocks), len(blocks) + 1
    blocks.append({"id": b_hit, "cleanup": False, "origin": org, "inl_stack": inl, "stmts": [
        {"k": "assign", "pl": {"l": pay, "p": []}, "rv": {"k": "use", "op": {"k": "move", "pl": {"l": subj, "p": [{"v": hv["idx"], "vn": hit}, 0]}}}, "span": span},
        {"k": "assign", "pl": {"l": built, "p": []}, "rv": {"k": "agg", "agg": "adt", "adt": owner, "vidx": vv[0]["idx"], "variant": vname, "fields": ["0"],
                                                           "ops": [{"k": "move", "pl": {"l": pay, "p": []}}]}, "span": span},
        {"k": "assign", "pl": copy.deepcopy(t["dest"]), "rv": {"k": "agg", "agg": "adt", "adt": adt, "vidx": hv["idx"], "variant": hit, "fields": ["0"],
                                                              "ops": [{"k": "move", "pl": {"l": built, "p": []}}]}, "span": span}],
        "term": {"k": "goto", "target": t["target"], "span": span}})
    if other == "None":
        orv = {"k": "agg", "agg": "adt", "adt": adt, "vidx": ov["idx"], "variant": "None", "fields": [], "ops": []}
    else:
        orv = {"k": "agg", "agg": "adt", "adt": adt, "vidx": ov["idx"], "variant": other, "fields": ["0"],
               "ops": [{"k": "move", "pl": {"l": subj, "p": [{"v": ov["idx"], "vn": other}, 0]}}]}
    blocks.append({"id": b_other, "cleanup": False, "origin": org, "inl_stack": inl, "stmts": [{"k": "assign", "pl": copy.deepcopy(t["dest"]), "rv": orv, "span": span}],
                   "term": {"k": "goto", "target": t["target"], "span": span}})
    blk["stmts"] = blk["stmts"] + [{"k": "assign", "pl": {"l": d, "p": []}, "rv": {"k": "discr", "pl": {"l": subj, "p": []}, "adt": adt, "ty": adt, "variants": vs}, "span": span}]
    blk["term"] = {"k": "switch", "discr": {"k": "move", "pl": {"l": d, "p": []}}, "discr_ty": "isize", "targets": [[hv["discr"], b_hit]], "otherwise": b_other, "span": span,
                   "std_summary": strip_generics(t["callee"])}
    return True


def _summarise_then_some(raw, bi, t):
    """`cond.then_some(v)` written out as `if cond { Some(v) } else { None }`"""
    args = t.get("args", [])
    if len(args) != 2 or args[0].get("k") not in ("copy", "move") or args[0]["pl"]["p"]:
        return False
    span = t.get("span", "")
    blocks = raw["blocks"]
    blk = blocks[bi]
    inl = blk.get("inl_stack", [])
    org = blk.get("origin", raw["path"])
    b_some, b_none = len(blocks), len(blocks) + 1
    blocks.append({"id": b_some, "cleanup": False, "origin": org, "inl_stack": inl, "stmts": [
        {"k": "assign", "pl": copy.deepcopy(t["dest"]), "rv": {"k": "agg", "agg": "adt", "adt": "core::option::Option", "vidx": 1, "variant": "Some", "fields": ["0"], "ops": [copy.deepcopy(args[1])]}, "span": span}],
        "term": {"k": "goto", "target": t["target"], "span": span}})
    blocks.append({"id": b_none, "cleanup": False, "origin": org, "inl_stack": inl, "stmts": [
        {"k": "assign", "pl": copy.deepcopy(t["dest"]), "rv": {"k": "agg", "agg": "adt", "adt": "core::option::Option", "vidx": 0, "variant": "None", "fields": [], "ops": []}, "span": span}],
        "term": {"k": "goto", "target": t["target"], "span": span}})
    # test the flag itself rather than a temporary copy of it, so that jump threading can follow the flag's constant setters
    disc = copy.deepcopy(args[0])
    for _ in range(3):
        ds = [s_ for b_ in blocks for s_ in b_["stmts"] if s_["k"] == "assign" and s_["pl"]["l"] == disc["pl"]["l"] and not s_["pl"]["p"]]
        if len(ds) == 1 and ds[0]["rv"]["k"] == "use" and ds[0]["rv"]["op"].get("k") in ("copy", "move") and not ds[0]["rv"]["op"]["pl"]["p"]:
            disc = {"k": "copy", "pl": {"l": ds[0]["rv"]["op"]["pl"]["l"], "p": []}}
        else:
            break
    blk["term"] = {"k": "switch", "discr": disc, "discr_ty": "bool", "targets": [[0, b_none]], "otherwise": b_some, "span": span, "std_summary": "bool::then_some"}
    return True


def _summarise_poll_map(raw, bi, t):
    """`poll.map(f)` written out as `match poll { Ready(v) => Ready(f(v)), Pending => Pending }` (f a closure or a plain function), so
    that the readiness of the inner poll stays visible to the router interpreter and `f` can be inlined"""
    args = t.get("args", [])
    if len(args) != 2 or args[0].get("k") not in ("copy", "move") or args[0]["pl"]["p"]:
        return False
    clo = args[1]
    fn_item = clo.get("k") == "const" and clo.get("fn")
    if clo.get("k") not in ("copy", "move") and not fn_item:
        return False
    span = t.get("span", "")
    blocks, locs = raw["blocks"], raw["locals"]
    blk = blocks[bi]
    subj = args[0]["pl"]["l"]
    adt = "core::task::poll::Poll"

    def new_local(ty=""):
        locs.append({"id": len(locs), "ty": ty, "synthetic": True})
        return len(locs) - 1
    d, pay, tup, res = new_local("isize"), new_local(), new_local(), new_local()
    inl = blk.get("inl_stack", [])
    org = blk.get("origin", raw["path"])
    vs = _VARIANTS[adt]
    b_call, b_wrap, b_pend = len(blocks), len(blocks) + 1, len(blocks) + 2
    call = ({"k": "call", "callee": clo["fn"], "callee_full": clo.get("fn_full", clo["fn"]), "resolved": clo["fn"], "args": [{"k": "move", "pl": {"l": pay, "p": []}}]} if fn_item else
            {"k": "call", "callee": "core::ops::function::FnOnce::call_once", "callee_full": "core::ops::function::FnOnce::call_once", "args": [clo, {"k": "move", "pl": {"l": tup, "p": []}}]})
    call.update({"arg_tys": [], "dest": {"l": res, "p": []}, "target": b_wrap, "unwind": None, "span": span, "synthetic": True})
    blocks.append({"id": b_call, "cleanup": False, "origin": org, "inl_stack": inl, "stmts": [
        {"k": "assign", "pl": {"l": pay, "p": []}, "rv": {"k": "use", "op": {"k": "move", "pl": {"l": subj, "p": [{"v": 0, "vn": "Ready"}, 0]}}}, "span": span},
        {"k": "assign", "pl": {"l": tup, "p": []}, "rv": {"k": "agg", "agg": "tuple", "ops": [{"k": "move", "pl": {"l": pay, "p": []}}]}, "span": span}], "term": call})
    blocks.append({"id": b_wrap, "cleanup": False, "origin": org, "inl_stack": inl, "stmts": [
        {"k": "assign", "pl": copy.deepcopy(t["dest"]), "rv": {"k": "agg", "agg": "adt", "adt": adt, "vidx": 0, "variant": "Ready", "fields": ["0"], "ops": [{"k": "move", "pl": {"l": res, "p": []}}]}, "span": span}],
        "term": {"k": "goto", "target": t["target"], "span": span}})
    blocks.append({"id": b_pend, "cleanup": False, "origin": org, "inl_stack": inl, "stmts": [
        {"k": "assign", "pl": copy.deepcopy(t["dest"]), "rv": {"k": "agg", "agg": "adt", "adt": adt, "vidx": 1, "variant": "Pending", "fields": [], "ops": []}, "span": span}],
        "term": {"k": "goto", "target": t["target"], "span": span}})
    blk["stmts"] = blk["stmts"] + [{"k": "assign", "pl": {"l": d, "p": []}, "rv": {"k": "discr", "pl": {"l": subj, "p": []}, "adt": adt, "ty": adt, "variants": vs}, "span": span}]
    blk["term"] = {"k": "switch", "discr": {"k": "move", "pl": {"l": d, "p": []}}, "discr_ty": "isize", "targets": [[0, b_call]], "otherwise": b_pend, "span": span, "std_summary": "core::task::poll::Poll::map"}
    return True


def _summarise_ok_or(raw, bi, t):
    """`opt.ok_or(err)` written out as `match opt { Some(v) => Ok(v), None => Err(err) }` (so that a literal Some / None built by an
    inlined helper is threaded through the following `?`)"""
    args = t.get("args", [])
    if len(args) != 2 or args[0].get("k") not in ("copy", "move") or args[0]["pl"]["p"]:
        return False
    span = t.get("span", "")
    blocks, locs = raw["blocks"], raw["locals"]
    blk = blocks[bi]
    subj = args[0]["pl"]["l"]
    d = len(locs)
    locs.append({"id": d, "ty": "isize", "synthetic": True})
    pay = len(locs)
    locs.append({"id": pay, "ty": "", "synthetic": True})
    inl = blk.get("inl_stack", [])
    org = blk.get("origin", raw["path"])
    vs = _VARIANTS["core::option::Option"]
    b_some, b_none = len(blocks), len(blocks) + 1
    blocks.append({"id": b_some, "cleanup": False, "origin": org, "inl_stack": inl, "stmts": [
        {"k": "assign", "pl": {"l": pay, "p": []}, "rv": {"k": "use", "op": {"k": "move", "pl": {"l": subj, "p": [{"v": 1, "vn": "Some"}, 0]}}}, "span": span},
        {"k": "assign", "pl": copy.deepcopy(t["dest"]), "rv": {"k": "agg", "agg": "adt", "adt": "core::result::Result", "vidx": 0, "variant": "Ok", "fields": ["0"],
                                                              "ops": [{"k": "move", "pl": {"l": pay, "p": []}}]}, "span": span}],
        "term": {"k": "goto", "target": t["target"], "span": span}})
    blocks.append({"id": b_none, "cleanup": False, "origin": org, "inl_stack": inl, "stmts": [
        {"k": "assign", "pl": copy.deepcopy(t["dest"]), "rv": {"k": "agg", "agg": "adt", "adt": "core::result::Result", "vidx": 1, "variant": "Err", "fields": ["0"],
                                                              "ops": [copy.deepcopy(args[1])]}, "span": span}],
        "term": {"k": "goto", "target": t["target"], "span": span}})
    blk["stmts"] = blk["stmts"] + [{"k": "assign", "pl": {"l": d, "p": []}, "rv": {"k": "discr", "pl": {"l": subj, "p": []}, "adt": "core::option::Option", "ty": "core::option::Option", "variants": vs}, "span": span}]
    blk["term"] = {"k": "switch", "discr": {"k": "move", "pl": {"l": d, "p": []}}, "discr_ty": "isize", "targets": [[1, b_some]], "otherwise": b_none, "span": span, "std_summary": "core::option::Option::ok_or"}
    return True


def _summarise_std(raw, bi, t):
    adt, hit, other = STD_SUMMARIES[strip_generics(t["callee"])]
    args = t.get("args", [])
    is_map_or = other == "default"
    clo = args[2] if is_map_or else (args[1] if len(args) > 1 else None)
    fn_item = clo is not None and clo.get("k") == "const" and clo.get("fn")        # a plain function passed as the predicate
    if clo is None or (clo.get("k") not in ("copy", "move") and not fn_item) or args[0].get("k") not in ("copy", "move") or args[0]["pl"]["p"]:
        return False
    span = t.get("span", "")
    blocks, locs = raw["blocks"], raw["locals"]
    blk = blocks[bi]
    subj = args[0]["pl"]["l"]
    d = len(locs)
    locs.append({"id": d, "ty": "isize", "synthetic": True})
    pay = len(locs)
    locs.append({"id": pay, "ty": "", "synthetic": True})
    tup = len(locs)
    locs.append({"id": tup, "ty": "", "synthetic": True})
    vs = _VARIANTS[adt]
    hit_v = [v for v in vs if v["name"] == hit][0]
    b_hit, b_other = len(blocks), len(blocks) + 1
    inl = blk.get("inl_stack", [])
    org = blk.get("origin", raw["path"])
    # closure arm: payload -> FnOnce::call_once(closure, (payload,)) -> dest
    blocks.append({"id": b_hit, "cleanup": False, "origin": org, "inl_stack": inl, "stmts": [
        {"k": "assign", "pl": {"l": pay, "p": []}, "rv": {"k": "use", "op": {"k": "move", "pl": {"l": subj, "p": [{"v": hit_v["idx"], "vn": hit}, 0]}}}, "span": span},
        {"k": "assign", "pl": {"l": tup, "p": []}, "rv": {"k": "agg", "agg": "tuple", "ops": [{"k": "move", "pl": {"l": pay, "p": []}}]}, "span": span}],
        "term": ({"k": "call", "callee": clo["fn"], "callee_full": clo.get("fn_full", clo["fn"]), "resolved": clo["fn"], "args": [{"k": "move", "pl": {"l": pay, "p": []}}],
                  "arg_tys": [], "dest": t["dest"], "target": t["target"], "unwind": None, "span": span, "synthetic": True} if fn_item else
                 {"k": "call", "callee": "core::ops::function::FnOnce::call_once", "callee_full": "core::ops::function::FnOnce::call_once", "args": [clo, {"k": "move", "pl": {"l": tup, "p": []}}],
                  "arg_tys": [], "dest": t["dest"], "target": t["target"], "unwind": None, "span": span, "synthetic": True})})
    if is_map_or:
        orv = {"k": "use", "op": args[1]}
    else:
        orv = {"k": "use", "op": {"k": "const", "ty": "bool", "bool": bool(other)}}
    blocks.append({"id": b_other, "cleanup": False, "origin": org, "inl_stack": inl, "stmts": [{"k": "assign", "pl": t["dest"], "rv": orv, "span": span}],
                   "term": {"k": "goto", "target": t["target"], "span": span}})
    blk["stmts"] = blk["stmts"] + [{"k": "assign", "pl": {"l": d, "p": []}, "rv": {"k": "discr", "pl": {"l": subj, "p": []}, "adt": adt, "ty": adt, "variants": vs}, "span": span}]
    blk["term"] = {"k": "switch", "discr": {"k": "move", "pl": {"l": d, "p": []}}, "discr_ty": "isize", "targets": [[hit_v["discr"], b_hit]], "otherwise": b_other, "span": span,
                   "std_summary": strip_generics(t["callee"])}
    return True


def _await_parts(tb, t, callee_path):
    """(future local, task-context local or None, coroutine operands or None) of a desugared `.await` poll"""
    a0 = t["args"][0]
    if a0.get("k") not in ("copy", "move"):
        return None
    l = a0["pl"]["l"]
    fut = None
    for _ in range(8):
        d = flow.single_def(tb, l)
        if d is None:
            break
        if d[0] == "call" and strip_generics(d[2].callee) in ("core::pin::Pin::new_unchecked", "core::pin::Pin::new") and d[2].args and d[2].args[0].get("k") in ("copy", "move"):
            l = d[2].args[0]["pl"]["l"]
            continue
        if d[0] == "assign" and d[3]["k"] == "ref":
            pl = d[3]["pl"]
            if [e for e in pl["p"] if e != "*"]:
                break
            if not pl["p"]:
                fut = pl["l"]
                break
            l = pl["l"]
            continue
        if d[0] == "assign" and d[3]["k"] == "use" and d[3]["op"].get("k") in ("copy", "move") and not d[3]["op"]["pl"]["p"]:
            l = d[3]["op"]["pl"]["l"]
            continue
        break
    if fut is None:
        return None
    # task context: poll(_, &mut *get_context(ctx))
    ctx = None
    if len(t["args"]) > 1 and t["args"][1].get("k") in ("copy", "move"):
        r = flow.root(tb, t["args"][1], through_calls=("core::future::get_context",))
        if r[0] in ("multi", "arg", "local", "yield"):
            ctx = r[1]
    # the coroutine aggregate the future was built from
    ups = None
    r = flow.root(tb, fut, through_calls=("core::future::into_future::IntoFuture::into_future",))
    if r[0] == "rv" and r[1]["k"] == "agg" and r[1].get("closure") == callee_path:
        ups = r[1]["ops"]
    return fut, ctx, ups


def _subst_place(pl, base, umap):
    if pl["l"] == base and pl["p"] and isinstance(pl["p"][0], int) and pl["p"][0] in umap:
        pl["l"] = umap[pl["p"][0]]
        pl["p"] = pl["p"][1:]


def _subst_operand(op, base, umap):
    if op.get("k") in ("copy", "move"):
        _subst_place(op["pl"], base, umap)


def _subst_block(b, base, umap):
    for s in b["stmts"]:
        if s["k"] == "assign":
            _subst_place(s["pl"], base, umap)
            rv = s["rv"]
            k = rv["k"]
            if k in ("use", "repeat", "cast"):
                _subst_operand(rv["op"], base, umap)
            elif k in ("ref", "rawptr", "discr"):
                _subst_place(rv["pl"], base, umap)
            elif k == "binop":
                _subst_operand(rv["a"], base, umap); _subst_operand(rv["b"], base, umap)
            elif k == "unop":
                _subst_operand(rv["a"], base, umap)
            elif k == "agg":
                for o in rv["ops"]:
                    _subst_operand(o, base, umap)
        elif s["k"] in ("fakeread", "mention", "setdiscr"):
            _subst_place(s["pl"], base, umap)
    t = b["term"]
    if t["k"] in ("call", "tailcall"):
        for a in t.get("args", []):
            _subst_operand(a, base, umap)
        if t.get("dest"):
            _subst_place(t["dest"], base, umap)
    elif t["k"] == "drop":
        _subst_place(t["pl"], base, umap)
    elif t["k"] == "switch":
        _subst_operand(t["discr"], base, umap)
    elif t["k"] == "yield":
        _subst_operand(t["value"], base, umap)


# -- jump threading over inlined returns ------------------------------------------------------------------------------------
# A helper that returns `true`/`false`, `Ok(..)`/`Err(..)` or (async) `Ready(..)` on different paths merges them in its return block;
# the caller then branches on that value again. Dominance-based rules would lose the correlation, so each predecessor of such a merge
# gets its own copy of the short chain up to the deciding switch, and the switch is folded when the value is known on that path.

def _succs_raw(t):
    k = t["k"]
    if k in ("goto", "drop", "assert", "yield"):
        return [t["target"]]
    if k in ("call", "tailcall"):
        return [t["target"]] if t.get("target") is not None else []
    if k == "switch":
        return [x[1] for x in t["targets"]] + [t["otherwise"]]
    return []


def _rep(env, op):
    k = op.get("k")
    if k == "const":
        if "bool" in op and op["bool"] is not None:
            return ("int", 1 if op["bool"] else 0)
        if op.get("int") is not None:
            try:
                return ("int", int(op["int"]))
            except Exception:
                return None
        return None
    if k in ("copy", "move"):
        pl = op["pl"]
        if not pl["p"]:
            return env.get(pl["l"]) or ("local", pl["l"])
        v = env.get(pl["l"])
        if v and v[0] == "var" and len(pl["p"]) == 2 and isinstance(pl["p"][0], dict) and pl["p"][0].get("vn") == v[2] and isinstance(pl["p"][1], int):
            i = pl["p"][1]
            return v[3][i] if i < len(v[3]) else None
        if v and v[0] == "var" and len(pl["p"]) == 1 and isinstance(pl["p"][0], int) and v[1] == "tuple":
            i = pl["p"][0]
            return v[3][i] if i < len(v[3]) else None
    return None


def _eval_stmt(env, s):
    if s["k"] != "assign":
        return
    pl, rv = s["pl"], s["rv"]
    if pl["p"]:
        env.pop(pl["l"], None)
        return
    k = rv["k"]
    val = None
    if k == "use":
        val = _rep(env, rv["op"])
        if val and val[0] == "local":
            val = None if val[1] == pl["l"] else val
    elif k == "agg" and rv.get("agg") == "adt":
        val = ("var", rv["adt"], rv["variant"], [_rep(env, o) for o in rv["ops"]])
    elif k == "discr" and not rv["pl"]["p"]:
        v = env.get(rv["pl"]["l"])
        if v and v[0] == "var":
            for vv in rv.get("variants", []):
                if vv["name"] == v[2]:
                    val = ("int", vv["discr"])
    elif k == "unop" and rv["op"] == "Not":
        a = _rep(env, rv["a"])
        if a and a[0] == "int" and a[1] in (0, 1):
            val = ("int", 1 - a[1])
    if val is None:
        env.pop(pl["l"], None)
    else:
        env[pl["l"]] = val


def _eval_branch(env, t):
    """Try::branch on a known Result / Option variant"""
    a = t["args"][0] if t.get("args") else None
    d = t.get("dest")
    if a is None or d is None or d["p"]:
        return
    v = _rep(env, a)
    env.pop(d["l"], None)
    if v and v[0] == "var":
        CF = "core::ops::control_flow::ControlFlow"
        if v[2] in ("Ok", "Some"):
            env[d["l"]] = ("var", CF, "Continue", [v[3][0] if v[3] else None])
        elif v[2] in ("Err", "None"):
            env[d["l"]] = ("var", CF, "Break", [("var", v[1], v[2], v[3])])


def thread_jumps(raw, max_chain=48, budget=160):
    blocks = raw["blocks"]
    for _round in range(6):
        preds = {}
        for i, b in enumerate(blocks):
            if b.get("cleanup") or b.get("dead"):
                continue
            for x in _succs_raw(b["term"]):
                preds.setdefault(x, []).append(i)
        progress = False
        # candidates: the return blocks of inlined callees, and the merge points that lead to one through plain gotos / drops
        cands = []
        for m in range(len(blocks)):
            mb = blocks[m]
            if mb.get("ret_merge") and not mb.get("dead") and mb.get("jt_clone") is None:
                cands.append(m)
                cur, steps = m, 0
                back = [m]
                seen_b = {m}
                while back and steps < 40:
                    steps += 1
                    x = back.pop()
                    for q in preds.get(x, []):
                        if q in seen_b or blocks[q].get("cleanup") or blocks[q]["term"]["k"] not in ("goto", "drop"):
                            continue
                        seen_b.add(q)
                        back.append(q)
                        if len(preds.get(q, [])) >= 2 and blocks[q].get("jt_clone") is None:
                            cands.append(q)
        flag_of = {}
        # flag merges anywhere in the body (`matches!(..)`, `a && b`, `let ok = if .. { true } else { false }`): a switch block with several
        # predecessors that contains no real work of its own and tests a local which its predecessors set to constants
        for m in range(len(blocks)):
            mb = blocks[m]
            if mb.get("dead") or mb.get("cleanup") or mb.get("jt_clone") is not None or m in cands or mb["term"]["k"] != "switch":
                continue
            if len(preds.get(m, [])) < 2 or mb["term"].get("discr_ty") != "bool":
                continue
            if any(s_["k"] == "assign" and s_["rv"]["k"] not in ("use",) for s_ in mb["stmts"]):
                continue
            if any("debug_assert" in m_ for s_ in mb["stmts"] for m_ in s_.get("macros", [])):
                continue
            dl = mb["term"]["discr"].get("pl", {}).get("l") if mb["term"]["discr"].get("k") in ("copy", "move") else None
            if dl is None:
                continue
            for s_ in mb["stmts"]:        # `_t = copy flag; switch _t`
                if s_["k"] == "assign" and s_["pl"]["l"] == dl and not s_["pl"]["p"] and s_["rv"]["k"] == "use" and s_["rv"]["op"].get("k") in ("copy", "move") and not s_["rv"]["op"]["pl"]["p"]:
                    dl = s_["rv"]["op"]["pl"]["l"]
            setters = 0
            for q in preds[m]:
                for s_ in blocks[q]["stmts"]:
                    if s_["k"] == "assign" and s_["pl"]["l"] == dl and not s_["pl"]["p"] and s_["rv"]["k"] == "use" and s_["rv"]["op"].get("k") == "const":
                        setters += 1
            if setters >= 1:
                cands.append(m)
                flag_of[m] = dl
        # blocks of inlined code that build a Result / Option / Poll literal themselves (`Err(e)?`, `return Ready(..)`): foldable in place
        lits = []
        for m in range(len(blocks)):
            mb = blocks[m]
            if mb.get("dead") or mb.get("cleanup") or mb.get("jt_done") or mb.get("jt_clone") is not None or not mb.get("inl_stack"):
                continue
            if any(s["k"] == "assign" and s["rv"]["k"] == "agg" and s["rv"].get("adt") in ("core::result::Result", "core::option::Option", "core::task::poll::Poll") and not s["pl"]["p"]
                   for s in mb["stmts"]):
                lits.append(m)

        def try_fold(m, env):
            chain, cur, ok, final = [], m, False, None
            folds = {}          # chain index of a folded switch -> chosen target
            commit = 0
            e2 = dict(env)
            e_commit = None
            for _ in range(max_chain):
                b = blocks[cur]
                if b.get("cleanup") or cur in chain:
                    break
                if cur != m and (b.get("jt_done") or b.get("jt_clone") is not None):
                    break           # already threaded from a later point: nothing more to gain, and no reason to copy what leads up to it
                for s in b["stmts"]:
                    _eval_stmt(e2, s)
                chain.append(cur)
                t = b["term"]
                if t["k"] in ("goto", "drop"):
                    cur = t["target"]
                    continue
                if t["k"] == "call" and strip_generics(t.get("callee", "")) == "core::ops::try_trait::Try::branch" and t.get("target") is not None:
                    _eval_branch(e2, t)
                    cur = t["target"]
                    continue
                if t["k"] == "switch":
                    if any("debug_assert" in m_ for s_ in b["stmts"] for m_ in s_.get("macros", [])):
                        break       # `if cfg!(debug_assertions)`: left as it is (the panic analysis recognises the assertion by this test)
                    v = _rep(e2, t["discr"])
                    if v and v[0] == "int":
                        tgt_ = t["otherwise"]
                        for val, tg in t["targets"]:
                            if val == v[1]:
                                tgt_ = tg
                        folds[len(chain) - 1] = tgt_
                        ok = True
                        final = tgt_
                        commit = len(chain)
                        e_commit = dict(e2)
                        cur = tgt_
                        continue
                break
            if not ok:
                return None
            return chain[:commit], folds, final, e_commit

        def emit(chain, folds, final, e2, skip_first):
            """clone chain (without its first block when skip_first) and return the id the predecessor must jump to"""
            base = len(blocks)
            todo = chain[1:] if skip_first else chain
            off = 1 if skip_first else 0
            for k_, c in enumerate(todo):
                nb = copy.deepcopy(blocks[c])
                nb["id"] = base + k_
                nb["jt_clone"] = c
                nb.pop("ret_merge", None)
                t = nb["term"]
                if k_ + 1 < len(todo):
                    if (k_ + off) in folds:
                        nb["term"] = {"k": "goto", "target": base + k_ + 1, "span": t.get("span", ""), "jt_folded": True}
                    else:
                        t["target"] = base + k_ + 1
                else:
                    nb["term"] = {"k": "goto", "target": final, "span": t.get("span", ""), "jt_folded": True}
                    nb["jt_env"] = {str(l): v for l, v in e2.items()}
                blocks.append(nb)
            return base if todo else final

        for m in lits:
            mb = blocks[m]
            if mb.get("jt_done") or budget <= 0 or m in cands:
                continue
            r0 = try_fold(m, {})
            if r0 is None:
                continue
            # the literal built in *this* block must be what decides the switch (otherwise a later block will be threaded on its own
            # and copying the blocks in between would only duplicate statements)
            nx_ = mb["term"].get("target") if mb["term"]["k"] in ("goto", "drop") else None
            if nx_ is not None and len(r0[0]) > 1:
                r1_ = try_fold(nx_, {})
                if r1_ is not None and len(r1_[1]) >= len(r0[1]):
                    continue
            chain, folds, final, e2 = r0
            budget -= 1
            progress = True
            mb["jt_done"] = True
            if len(chain) == 1:
                mb["term"] = {"k": "goto", "target": final, "span": mb["term"].get("span", ""), "jt_folded": True}
                mb["jt_env"] = {str(l): v for l, v in e2.items()}
            else:
                nxt = emit(chain, folds, final, e2, True)
                if 0 in folds:
                    mb["term"] = {"k": "goto", "target": nxt, "span": mb["term"].get("span", ""), "jt_folded": True}
                else:
                    mb["term"]["target"] = nxt
        for m in cands:
            mb = blocks[m]
            if mb.get("jt_done"):
                continue
            # (a) the value is determined in the merge block itself (e.g. `Ready(x)` built in the return block): thread once, in place
            r0 = try_fold(m, {})
            if r0 is not None and budget > 0:
                chain, folds, final, e2 = r0
                budget -= 1
                progress = True
                mb["jt_done"] = True
                if len(chain) == 1:
                    mb["term"] = {"k": "goto", "target": final, "span": mb["term"].get("span", ""), "jt_folded": True}
                    mb["jt_env"] = {str(l): v for l, v in e2.items()}
                else:
                    nxt = emit(chain, folds, final, e2, True)
                    if 0 in folds:
                        mb["term"] = {"k": "goto", "target": nxt, "span": mb["term"].get("span", ""), "jt_folded": True}
                    else:
                        mb["term"]["target"] = nxt
                mb.pop("ret_merge", None) if False else None
                continue
            # (b) the value depends on the path taken into the merge: one private copy of the chain per predecessor
            for p in list(preds.get(m, [])):
                if budget <= 0:
                    break
                pb = blocks[p]
                if pb["term"]["k"] not in ("goto", "drop") or p == m or pb.get("cleanup"):
                    continue
                env = {}
                pre = [p]
                def _is_residual(t):
                    return t["k"] == "call" and strip_generics(t.get("callee", "")) == "core::ops::try_trait::FromResidual::from_residual" and t.get("target") is not None
                while len(pre) < 6 and len(preds.get(pre[0], [])) == 1:
                    q = preds[pre[0]][0]
                    if q in pre or blocks[q].get("cleanup") or not (blocks[q]["term"]["k"] in ("goto", "drop") or _is_residual(blocks[q]["term"])):
                        break
                    pre.insert(0, q)
                for q in pre:
                    for s in blocks[q]["stmts"]:
                        _eval_stmt(env, s)
                    tq = blocks[q]["term"]
                    if _is_residual(tq) and q != p and tq.get("dest") and not tq["dest"]["p"] and "Result<" in raw["locals"][tq["dest"]["l"]].get("ty", ""):
                        # `Err(e)?` / `r?` on the failing edge: FromResidual for Result always yields Err
                        env[tq["dest"]["l"]] = ("var", "core::result::Result", "Err", [None])
                r1 = try_fold(m, env)
                if r1 is None:
                    continue
                chain, folds, final, e2 = r1
                budget -= 1
                progress = True
                first_clone = emit(chain, folds, final, e2, False)
                pb["term"]["target"] = first_clone
                fl_ = flag_of.get(m)
                if fl_ is not None and isinstance(first_clone, int) and first_clone >= 0 and blocks[first_clone].get("jt_clone") is not None:
                    # the constant this predecessor stored in the flag is only ever read by its private copy of the test: give it a local
                    # of its own, so that the flag keeps a single definition on the remaining (computed) path
                    nl = len(raw["locals"])
                    nloc = {k__: v__ for k__, v__ in raw["locals"][fl_].items() if k__ != "debug"}
                    nloc.update(id=nl, synthetic=True)
                    raw["locals"].append(nloc)
                    for s_ in pb["stmts"]:
                        if s_["k"] == "assign" and s_["pl"]["l"] == fl_ and not s_["pl"]["p"]:
                            s_["pl"] = {"l": nl, "p": []}
                    for k_ in range(first_clone, first_clone + len(chain)):
                        for s_ in blocks[k_]["stmts"]:
                            if s_["k"] == "assign" and s_["rv"]["k"] == "use" and s_["rv"]["op"].get("k") in ("copy", "move") and s_["rv"]["op"]["pl"]["l"] == fl_ and not s_["rv"]["op"]["pl"]["p"]:
                                s_["rv"]["op"]["pl"] = {"l": nl, "p": []}
                                # the temporary the copy is tested through is private to this copy of the test as well
                                if not s_["pl"]["p"] and len(chain) == 1:
                                    tl = len(raw["locals"])
                                    tloc = {k__: v__ for k__, v__ in raw["locals"][s_["pl"]["l"]].items() if k__ != "debug"}
                                    tloc.update(id=tl, synthetic=True)
                                    raw["locals"].append(tloc)
                                    s_["pl"] = {"l": tl, "p": []}
        if not progress:
            break
    _prune_and_substitute(raw)


def _prune_and_substitute(raw):
    blocks = raw["blocks"]
    seen, st = set(), [0]
    while st:
        b = st.pop()
        if b in seen:
            continue
        seen.add(b)
        t = blocks[b]["term"]
        st.extend(_succs_raw(t))
        for key in ("unwind", "drop"):
            if isinstance(t.get(key), int):
                st.append(t[key])
    npred = {}
    for i in seen:
        for x in _succs_raw(blocks[i]["term"]):
            npred.setdefault(x, []).append(i)
    for i, b in enumerate(blocks):
        if i not in seen and not b.get("cleanup") and not b.get("dead"):
            b["stmts"] = []
            b["term"] = {"k": "unreachable", "span": b["term"].get("span", ""), "dead": True}
            b["dead"] = True
    # payload substitution: an arm entered only from one folded clone reads the payload of a value whose construction is known
    def single_def_local(l):
        n = 0
        for b in blocks:
            if b.get("dead"):
                continue
            for s in b["stmts"]:
                if s["k"] == "assign" and s["pl"]["l"] == l and not s["pl"]["p"]:
                    n += 1
            t = b["term"]
            if t["k"] in ("call", "tailcall") and t.get("dest") and t["dest"]["l"] == l:
                n += 1
        return n <= 1
    for c in sorted(seen):
        if "jt_env" not in blocks[c]:
            continue
        env = {int(k): v for k, v in blocks[c]["jt_env"].items()}
        cur = blocks[c]["term"].get("target")
        for _ in range(8):
            if cur is None or len(npred.get(cur, [])) != 1 or blocks[cur].get("cleanup"):
                break
            b = blocks[cur]
            for s in b["stmts"]:
                if s["k"] != "assign":
                    continue
                rv = s["rv"]
                if rv["k"] == "use" and rv["op"].get("k") in ("copy", "move") and rv["op"]["pl"]["p"]:
                    v = _rep(env, rv["op"])
                    if v and v[0] == "local" and single_def_local(v[1]):
                        rv["op"] = {"k": rv["op"]["k"], "pl": {"l": v[1], "p": []}, "jt_subst": True}
                _eval_stmt(env, s)
            if b["term"]["k"] in ("goto", "drop"):
                cur = b["term"]["target"]
            else:
                break


def origin_of(body, bb):
    return body.blocks[bb].get("origin", body.path)
