#!/usr/bin/env python3
"""Generates /verif/MANIFEST.json from the table below + which rule modules exist."""
import json
import os
import sys

VERIF = os.path.dirname(os.path.dirname(os.path.abspath(__file__)))

BASELINE = "cd /repo && cargo test --workspace --no-fail-fast --offline"

# property -> (engine, technique, level text, level note, design ref)
TABLE = {
    "C01": ("E3+E5", "typestate abstract interpretation of the pub/sub router's poll MIR (PollAI) + sweep/key-flow rules",
            "Exhaustive path-sensitive typestate analysis of <pubsub::Topic as Future>::poll over a finite abstract domain (every "
            "ready/pending/error/end outcome of every peer in every reachable router state): single-slot FIFO discipline, "
            "poll_ready-before-start_send, no park while dirty / without registration; index-sweep rule on FanoutMany; topic-key flow in handle_stream.",
            "Decides the listed structural clauses only; byte equality on the wire, fairness and timing are not decided. Trusted: the operation table "
            "(futures-channel, tokio-stream, Sink contract), rustc MIR construction.", "§3 C01"),
    "C02": ("E3+E5", "PollAI typestate analysis of the req/rep router + dataflow rules on Router::start_send",
            "Exhaustive typestate analysis of <reqrep::Topic as Future>::poll (slot overwrite, routing of take() to sinks) plus flow rules: the origin "
            "tag is inserted (not or_insert) from the StreamMap key, replies go to entries.get_mut(parsed removed tag) only, tag stripped, payload passed through.",
            "Structural clauses only; payload equality on the wire and replier behaviour not decided.", "§3 C02"),
    "C03": ("E5+E4", "orientation-parity, flush-before-finish typestate, pipeline table-agreement (helpers inlined), pending-has-waker path rule on the client poll functions, frame-limit same-quantity rule, panic-site enumeration on batching",
            "Static rules on the client publisher/subscriber: batch order parity (push/drain/iter vs. consumption end), finish() flushes the framed writer "
            "before SendStream::finish and frames the partial batch, publisher/subscriber pipelines are inverse per frame kind, no configuration-reachable panic in batching.",
            "Value equality, timing of batch cut-off and behaviour over a real server are not decided.", "§3 C03"),
    "C04": ("E5", "dominance and dataflow rules over the requestor/replier MIR with async helpers inlined; guard-live-across-await rule on the reply wait; who-may-mutate rule on the pending table",
            "Atomic id generation (single fetch_add), pending entry registered before the request is sent and keyed by the same id that is put in the header, "
            "replies matched by removed id only, replier echoes request headers, the receiver is awaited only inside timeout(request_timeout) mapped to RequestTimeout.",
            "Durations, u32 wrap-around and server-side isolation (C02) are not decided here.", "§3 C04"),
    "C05": ("E5", "table-agreement, must-dominate, comparison-skeleton and consume-before-complete rules over codec/frame/utils MIR",
            "All 8 frame kinds: tag tables inverse bijections; get_length measures what write_to_bytes writes; 1 MiB limit validated before any buffer "
            "operation in both directions with the exact comparison; reassembly guard and exact consumption; batch reader mirrors batch writer.",
            "Value-level round-trip equality and bincode's own correctness are not decided.", "§3 C05"),
    "C06": ("E4", "panic-/allocation-site enumeration over the decoder region with guard discharge rules",
            "Every potential panic site and allocation-size argument reachable from any decoding entry point is enumerated from MIR and must be discharged "
            "by a dominating guard rule (D1–D7) or be input-bounded; unbounded bincode deserialize_from is disallowed.",
            "Third-party decoders (bincode, flate2, zstd, brotli, lz4_flex) are assumed to return Err rather than panic.", "§3 C06"),
    "C07": ("E6+E5+E4", "regex-literal analysis + path rules on is_valid/try_from + must-dominate in handle_stream",
            "Grammar literal (anchors, two {3,64} groups, class), same component rule on both parsers, reserved prefix on both paths, no panic site in the "
            "parsers, server validates before touching the topic map and answers INVALID_TOPIC_NAME; derived Hash/Eq over both fields.",
            "The regex engine's semantics and Display∘parse identity are not decided.", "§3 C07"),
    "C08": ("E3+E5", "must-return-Ok summaries, sweep/retain rules, PollAI with failing peers",
            "FanoutMany/Router never propagate a child error and evict only the failing entry; sweep visits every entry exactly once per call even across "
            "evictions; no reachable panic in either router for any peer failure; a failed/ended replier is unbound.",
            "Real QUIC peer behaviour and fairness not decided.", "§3 C08"),
    "C09": ("E3", "PollAI: spin (non-consuming cycle) and lost-wake-up (park without registration / while dirty) detection; sweep-completeness rules on the sink combinators",
            "Exhaustive over all reachable abstract router states of both routers: no cycle of non-consuming edges inside one poll, no Return Pending with an "
            "enabled source not registered or an unflushed sink not pending.",
            "CPU time and executor fairness are not decided.", "§3 C09"),
    "C10": ("E3+E5", "PollAI typestate of server/buffered_err slots + constant agreement + error-frame conversion table rule on the client (the rejection code reaches is_recoverable_error)",
            "Single replier slot never replaced while bound; late replier gets REPLIER_ALREADY_BOUND (same constant the client classifies as retryable), "
            "is told then closed; rebind after the bound replier's stream ends.",
            "Close timing on the wire is not decided.", "§3 C10"),
    "C11": ("E4+E5", "post-Ok commit rule in handle_stream (async helpers inlined), panic enumeration over the router region, PollAI (abandoned peers, poisoned slots), path rule on handle_reply",
            "After Frame::Ok is sent every path hands the socket to the router or is a listed finding; no frame content reaches a panic in the routers; "
            "the client maps Frame::Error to an OpenStream error and only Frame::Ok to success.",
            "quinn behaviour on task panic not decided.", "§3 C11"),
    "C12": ("E5", "loop-scope, sibling-agreement and classification-table rules over keep_alive MIR (helpers inlined); wake-on-every-path and pending-has-waker path rules; transport-error pass-through; pending-table discipline",
            "Retry budget iterator created per outage; exhaustion and unrecoverable errors surface; every split_stream is followed by a reader task; "
            "re-registration uses the stream's own headers; recoverable-error classification frozen.",
            "Delivery after a real reconnect, attempt counts and timing are not decided.", "§3 C12"),
    "C13": ("E4+E5", "panic-site enumeration + clamp/count-shape/dependence-signature rules on BackoffStrategyIter::next",
            "Checked/saturating arithmetic only, clamp on every path when a maximum is set, attempts counted 1..=max with > comparison, per-strategy "
            "dependence signature of the delay.",
            "The numerical law itself (exact values) is not decided.", "§3 C13"),
    "C14": ("E5", "terminal-operation, table-agreement, disallowed-API and whole-value backward-slice rules over codecs/compression MIR (helpers inlined)",
            "Each encoder is finished before its bytes are taken, comp/decomp choose the same library per variant, lossy/unchecked UTF-8 APIs are disallowed, "
            "bincode option family agrees.",
            "Losslessness of third-party codecs is not decided.", "§3 C14"),
    "C15": ("E5+E7", "configuration flow rules + disallowed permissive verifiers (+ compile_fail witnesses in the thorough tier)",
            "Server verifier is AllowAnyAuthenticatedClient over the configured CA store; client uses configured roots and client cert; nothing permissive "
            "anywhere; generator roles/SAN/signing; connect() unreachable without CA and client certificate (type-level).",
            "Handshake outcomes (rustls/webpki) are trusted, not decided.", "§3 C15"),
    "C16": ("E3+E5", "PollAI shutdown obligation (K7) + must-dominate / lock-order rules in Server::shutdown",
            "From every reachable router state with the channel closed and ready sinks, every path reaches Ready(()) with the buffer delivered and flushed; "
            "shutdown closes every topic channel before joining; lock order consistent.",
            "Bounded time in seconds and real sink readiness not decided.", "§3 C16"),
    "C17": ("E5+E3", "live-across-yield analysis of the global topics guard and of any permit/guard across the hand-over wait; who-may-wait rule on the topic queue; per-topic task/channel rules; connection-window constant rule on both endpoints; PollAI no-spin (K6) on both routers' poll",
            "While the global topics MutexGuard is live, no future whose completion depends on a peer/topic router may be awaited; the wait for room in a topic's queue "
            "happens only in the stream's own task with nothing shared held; each topic has its own task and channel; the connection-level receive window of either "
            "endpoint is not capped near the per-stream window; no router poll can go round for ever without consuming anything (it would never yield its runtime worker).",
            "The >100 registrations race itself and QUIC flow-control dynamics are not decided.", "§3 C17"),
}


def main():
    checks, na = [], []
    for pid in sorted(TABLE):
        eng, tech, text, note, ref = TABLE[pid]
        if not os.path.exists(os.path.join(VERIF, "analysis", "rules", pid.lower() + ".py")):
            na.append({"property_id": pid, "reason": "check not yet built in this round (planned: %s)" % tech})
            continue
        checks.append({
            "property_id": pid,
            "quick_cmd": "bin/check %s --tier quick" % pid,
            "thorough_cmd": "bin/check %s --tier thorough" % pid,
            "evidence_file": "/verif/evidence/%s.json" % pid,
            "replay_cmd_template": "bin/check %s --replay {path}" % pid,
            "engine": eng,
            "level_claimed": {"category": "other",
                              "text": "Static analysis of necessary structural conditions, exhaustive over all call sites / paths / abstract states of the analysed build. " + text,
                              "design_ref": "DESIGN.md " + ref},
            "level_note": note + " Trusted base: rustc MIR construction and Instance resolution, the fact extractor, the operation/API tables in DESIGN.md §5.",
            "technique": "static analysis: " + tech,
        })
    man = {
        "version": 1,
        "setup_cmd": "bin/setup",
        "hooks": {"guard": "seliumlabs_selium_verif",
                  "enable": "none needed: the checks analyse /repo's MIR through RUSTC_WORKSPACE_WRAPPER; no source hooks",
                  "baseline_off_cmd": BASELINE, "source_commits": [], "add_only": True},
        "engines": [
            {"name": "E1 mirfacts", "path": "driver/", "serves_properties": sorted(TABLE), "kind_free_text": "rustc_private MIR/ADT/impl/const fact extractor (judges nothing)"},
            {"name": "E2-E6 analysis", "path": "analysis/", "serves_properties": sorted(TABLE), "kind_free_text": "Python rule library over the facts: dominators, provenance, table extraction, PollAI, panic enumerator, regex literal"},
        ],
        "checks": checks,
        "not_applicable": na,
        "notes": "All checks are static (no repository code is executed). bin/check rebuilds facts from /repo's current working tree on every run (cached by content hash).",
    }
    json.dump(man, open(os.path.join(VERIF, "MANIFEST.json"), "w"), indent=1)
    print("MANIFEST: %d checks, %d not_applicable" % (len(checks), len(na)))


if __name__ == "__main__":
    main()
