//! Compile-fail witnesses for C15 (E7 in DESIGN.md). Each `compile_fail` witness has a compiling
//! twin that differs only by the offending line, so a witness cannot pass because of a typo.
//! Run with `cargo +nightly test --doc` (error codes are honoured on nightly only).

/// `connect()` does not exist before a certificate authority has been configured.
/// ```compile_fail,E0599
/// async fn w() {
///     let _ = selium::custom().endpoint("127.0.0.1:7001").connect().await;
/// }
/// ```
/// Twin: the complete chain type-checks.
/// ```no_run
/// async fn w() -> Result<(), Box<dyn std::error::Error>> {
///     let _ = selium::custom().endpoint("127.0.0.1:7001").with_certificate_authority("ca.der")?.with_cert_and_key("c.der", "k.der")?.connect().await;
///     Ok(())
/// }
/// ```
pub struct ConnectNeedsCa;

/// `connect()` does not exist before a client certificate and key have been configured.
/// ```compile_fail,E0599
/// async fn w() -> Result<(), Box<dyn std::error::Error>> {
///     let _ = selium::custom().endpoint("127.0.0.1:7001").with_certificate_authority("ca.der")?.connect().await;
///     Ok(())
/// }
/// ```
/// Twin:
/// ```no_run
/// async fn w() -> Result<(), Box<dyn std::error::Error>> {
///     let _ = selium::custom().endpoint("127.0.0.1:7001").with_certificate_authority("ca.der")?.with_cert_and_key("c.der", "k.der")?.connect().await;
///     Ok(())
/// }
/// ```
pub struct ConnectNeedsClientCert;

/// The cloud builder cannot connect without a client certificate either.
/// ```compile_fail,E0599
/// async fn w() {
///     let _ = selium::cloud().connect().await;
/// }
/// ```
/// Twin:
/// ```no_run
/// async fn w() -> Result<(), Box<dyn std::error::Error>> {
///     let _ = selium::cloud().with_cert_and_key("c.der", "k.der")?.connect().await;
///     Ok(())
/// }
/// ```
pub struct CloudNeedsClientCert;

/// A `Client` cannot be forged around the builder: its fields are private.
/// ```compile_fail,E0616
/// fn w(c: selium::Client) { let _ = c.connection; }
/// ```
/// Twin: the type itself is nameable.
/// ```no_run
/// fn w(c: selium::Client) { let _ = c; }
/// ```
pub struct ClientNotForgeable;
